---------------------------- MODULE IrcMsgOps ----------------------------
(* C18, IRC part - the property, as a monitor over trace lines.

   Strings are byte strings over the tokens of LinesOps (1 CR, 2 LF, 3 'a',
   4 5 = the two bytes of U+00E9, 6 SP, 7 ':', 8 NUL, 100 + b other bytes).

   One trace = one message case.  A trace line is a record
   [k, hp, p, hc, c, a, w]:
     k="msg"     the code built a message object: hp = it has a prefix, p =
                 the prefix, hc = its command is not None, c = the command
                 (str(command)), a = the sequence of its arguments
     k="reject"  the code refused (constructor or serialiser raised) - always
                 allowed
     k="wire"    w = bytes(message)
     k="parsed"  the repository's own reader (splitLines + parsemsg) produced,
                 from one line of w: prefix p (hp: a prefix was found), command
                 c (hc: not None), arguments a
     k="parse_error"  the repository's parser raised on a line of w
     k="end"     end of the case
   Unused fields are FALSE / <<>>.

   Clauses:
     C18.no_terminator  the serialised message does not end in CR LF
     C18.extra_line     CR or LF before the terminator (a value injected a
                        line break), or a second line came out of the reader
     C18.roundtrip      parsing the serialised message does not give back the
                        message's prefix, command and arguments
   Leniency (slack of the statement): an absent prefix and an empty prefix are
   the same thing.                                                          *)
EXTENDS Integers, Sequences

L == INSTANCE LinesOps     \* L!Split: the reference line splitter

CR    == 1
LF    == 2

SP    == 6
COLON == 7

Rec(k, hp, p, hc, c, a, w) == [k |-> k, hp |-> hp, p |-> p, hc |-> hc, c |-> c, a |-> a, w |-> w]
Plain(k) == Rec(k, FALSE, <<>>, FALSE, <<>>, <<>>, <<>>)

Terminated(w) == Len(w) >= 2 /\ w[Len(w) - 1] = CR /\ w[Len(w)] = LF
OneLine(w)    == Terminated(w) /\ \A i \in 1..(Len(w) - 2) : w[i] # CR /\ w[i] # LF

SameMsg(m, ln) == m.p = ln.p /\ m.hc = ln.hc /\ m.c = ln.c /\ m.a = ln.a

M0 == [hp |-> FALSE, p |-> <<>>, hc |-> FALSE, c |-> <<>>, a |-> <<>>]
P0 == [m |-> M0, wired |-> FALSE, nparsed |-> 0]

Fail(Q, ln) ==
  CASE ln.k = "wire" ->
         IF ~Terminated(ln.w) THEN "C18.no_terminator"
         ELSE IF ~OneLine(ln.w) THEN "C18.extra_line"
         ELSE ""
    [] ln.k = "parsed" ->
         IF Q.nparsed >= 1 THEN "C18.extra_line"
         ELSE IF ~SameMsg(Q.m, ln) THEN "C18.roundtrip"
         ELSE ""
    [] ln.k = "parse_error" -> "C18.roundtrip"
    [] ln.k = "end" -> IF Q.wired /\ Q.nparsed = 0 THEN "C18.roundtrip" ELSE ""
    [] OTHER -> ""

Apply(Q, ln) ==
  CASE ln.k = "msg" -> [Q EXCEPT !.m = [hp |-> ln.hp, p |-> ln.p, hc |-> ln.hc, c |-> ln.c, a |-> ln.a]]
    [] ln.k = "wire" -> [Q EXCEPT !.wired = TRUE]
    [] ln.k \in {"parsed", "parse_error"} -> [Q EXCEPT !.nparsed = @ + 1]
    [] OTHER -> Q

RECURSIVE Run(_, _, _)
Run(Q, lines, badSoFar) ==
  IF lines = <<>> THEN <<Q, badSoFar>>
  ELSE LET ln == Head(lines)
           f  == IF badSoFar = "" THEN Fail(Q, ln) ELSE badSoFar
       IN Run(Apply(Q, ln), Tail(lines), f)
=============================================================================
