---------------------------- MODULE IrcMsgOps ----------------------------
(* C18, IRC part - the property, as a monitor over trace lines.

   Strings are byte strings over the tokens of LinesOps (1 CR, 2 LF, 3 'a',
   4 5 = the two bytes of U+00E9, 6 SP, 7 ':', 8 NUL, 100 + b other bytes).

   One trace = one case: one command (or a few in a row) taken through the
   code.  A trace line is a record [k, hp, p, hc, c, a, w]:
     k="msg"     the code built a message object: hp = it has a prefix, p =
                 the prefix, hc = its command is not None, c = the command
                 (str(command)), a = the sequence of its arguments.  Starts
                 the block of one command.
     k="reject"  the code refused (constructor or serialiser raised; the IRC
                 component wrote nothing for the command) - always allowed
     k="wire"    w = bytes(message)
     k="sent"    the command event was fired at a real IRC component and the
                 component fired a `write` event with data w (what is handed
                 to the transport)
     k="parsed"  the repository's own reader produced, from one line of the
                 preceding wire / sent bytes: prefix p (hp: a prefix was
                 found), command c (hc: not None), arguments a.  After "wire"
                 the reader is splitLines + parsemsg on w alone; after "sent"
                 it is a real Line component at the peer, fed every written
                 chunk of the trace in order (so it holds unterminated rests
                 across commands), + parsemsg on each `line` event.
     k="parse_error"  the repository's parser raised on such a line
     k="end"     end of the case
   Unused fields are FALSE / <<>>.

   Clauses (the same for bytes(message) and for what the component writes):
     C18.no_terminator  the bytes do not end in CR LF
     C18.extra_line     CR or LF before the terminator (a value injected a
                        line break), a second line came out of the reader, or
                        the component wrote twice for one command
     C18.roundtrip      reading the bytes back does not give the message's
                        prefix, command and arguments (or gives nothing)
   Leniency (slack of the statement): an absent prefix and an empty prefix are
   the same thing.                                                          *)
EXTENDS Integers, Sequences

L == INSTANCE LinesOps     \* L!Split: the reference line splitter

CR    == 1
LF    == 2

SP    == 6
COLON == 7

Rec(k, hp, p, hc, c, a, w) == [k |-> k, hp |-> hp, p |-> p, hc |-> hc, c |-> c, a |-> a, w |-> w]
Plain(k) == Rec(k, FALSE, <<>>, FALSE, <<>>, <<>>, <<>>)

Terminated(w) == Len(w) >= 2 /\ w[Len(w) - 1] = CR /\ w[Len(w)] = LF
OneLine(w)    == Terminated(w) /\ \A i \in 1..(Len(w) - 2) : w[i] # CR /\ w[i] # LF

SameMsg(m, ln) == m.p = ln.p /\ m.hc = ln.hc /\ m.c = ln.c /\ m.a = ln.a

M0 == [hp |-> FALSE, p |-> <<>>, hc |-> FALSE, c |-> <<>>, a |-> <<>>]
P0 == [m |-> M0, wired |-> FALSE, nparsed |-> 0, nsent |-> 0]

(* a read-back phase (after "wire" or "sent") that ends without one parsed line *)
Unread(Q) == Q.wired /\ Q.nparsed = 0

Bytes(w) == IF ~Terminated(w) THEN "C18.no_terminator"
            ELSE IF ~OneLine(w) THEN "C18.extra_line"
            ELSE ""

Fail(Q, ln) ==
  CASE ln.k = "wire" -> IF Unread(Q) THEN "C18.roundtrip" ELSE Bytes(ln.w)
    [] ln.k = "sent" ->
         IF Unread(Q) THEN "C18.roundtrip"
         ELSE IF Q.nsent >= 1 THEN "C18.extra_line"
         ELSE Bytes(ln.w)
    [] ln.k = "parsed" ->
         IF Q.nparsed >= 1 THEN "C18.extra_line"
         ELSE IF ~SameMsg(Q.m, ln) THEN "C18.roundtrip"
         ELSE ""
    [] ln.k = "parse_error" -> "C18.roundtrip"
    [] ln.k \in {"msg", "reject", "end"} -> IF Unread(Q) THEN "C18.roundtrip" ELSE ""
    [] OTHER -> ""

Apply(Q, ln) ==
  CASE ln.k = "msg" -> [m |-> [hp |-> ln.hp, p |-> ln.p, hc |-> ln.hc, c |-> ln.c, a |-> ln.a],
                        wired |-> FALSE, nparsed |-> 0, nsent |-> 0]
    [] ln.k = "wire" -> [Q EXCEPT !.wired = TRUE, !.nparsed = 0]
    [] ln.k = "sent" -> [Q EXCEPT !.wired = TRUE, !.nparsed = 0, !.nsent = @ + 1]
    [] ln.k \in {"parsed", "parse_error"} -> [Q EXCEPT !.nparsed = @ + 1]
    [] ln.k = "reject" -> [Q EXCEPT !.wired = FALSE, !.nparsed = 0]
    [] OTHER -> Q

RECURSIVE Run(_, _, _)
Run(Q, lines, badSoFar) ==
  IF lines = <<>> THEN <<Q, badSoFar>>
  ELSE LET ln == Head(lines)
           f  == IF badSoFar = "" THEN Fail(Q, ln) ELSE badSoFar
       IN Run(Apply(Q, ln), Tail(lines), f)
=============================================================================
