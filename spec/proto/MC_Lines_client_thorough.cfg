SPECIFICATION Spec
CONSTANTS
  NSock = 1
  Tokens = {1, 2, 3, 4, 5}
  MaxTotal = 7
  Cap = 2
  Variants = {"code"}
INVARIANT TypeOK
INVARIANT Conforms
INVARIANT HeldIsTail
INVARIANT EmittedLines
VIEW View
CHECK_DEADLOCK FALSE
