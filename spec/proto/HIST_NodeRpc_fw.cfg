SPECIFICATION Spec
CONSTANTS
  Sizes = {"s"}
  Pays = {"plain"}
  FwKinds = {"ok", "sblk", "rblk"}
  FwConfigs = {"--", "S-", "-R", "SR"}
  Values = {1}
  NoResult = {FALSE}
  ErrReplies = FALSE
  HostileClasses = {}
  MetaKeys = {}
  MaxSends = 2
  MaxHostile = 0
  MaxCuts = 0
  MaxSteps = 6
  Dev = {}
INVARIANT Conforms
CHECK_DEADLOCK FALSE
