---------------------------- MODULE NodeRpcOps ----------------------------
(* C19 - the property, as a monitor over trace lines.

   Side 0 ("A") fires remote events and a handler waits for each result;
   side 1 ("B") executes them.  Direction 0 is A->B, direction 1 is B->A.
   A trace line is a record [k, id, a, b, c, s] (ints and short strings):

     k="cfg"      a = 1 iff A has a send firewall, b = 1 iff B has a receive firewall
     k="send"     id = sid (1, 2, ... in order), a = projection id of the event
                  handed to send (name, args, kwargs, channels, success, failure,
                  notify), b = 1 iff the send firewall accepts it (no firewall:
                  1), c = 1 iff the receive firewall accepts it, s = "nr" iff
                  nobody waits for the result (node_without_result, as
                  Server.send(no_result=True) / send_to / send_all)
     k="wr"       id = side that fired a `write` event, a = bytes
     k="read"     id = direction, a = bytes handed to the receiver in one read
     k="exec"     id = sid, a = projection id of the event as loaded by the
                  callee (after dump -> wire -> load); the callee dispatched it
     k="release"  id = sid; the callee's handler finishes: a = id of the value
                  it returns, b = 1 iff it raises instead
     k="deliver"  id = sid; the sender's waiting handler resumes: a = id of
                  the value it sees (0 = None, -1 = none of this sid's values),
                  b = 1 iff it sees the error flag
     k="hostile"  id = direction; a packet of the hostile grammar was put on
                  the wire; a = 1 iff metadata class, s = metadata key / class
     k="hattr"    id = side; an event built from a hostile packet: s = metadata
                  key supplied by the peer, a = 1 iff the event's attribute s
                  holds the peer's value, b = 0 at load time / 1 when dispatched;
                  b = 2: the packet was a *value* packet answering a call and
                  the event is the sender's event waiting for that call
     k="escape"   id = side; an exception left Manager.tick() (run() ends)
     k="probe"    id = side; a = 1 iff a probe event fired now was dispatched
     k="quiet"    all bytes handed over, all handlers released, all settled

   Fail(P, ln) names the clause of C19 the line violates ("" if none);
   Apply(P, ln) is the next monitor state.  Where C19 is silent every outcome
   is allowed: what the waiting handler of a firewalled event sees; what a
   peer that sends hostile packets in a direction gets for the legitimate
   traffic of that same direction (lost / garbled by its own doing); whether
   a hostile packet is dispatched or ignored; the order of lines.           *)
EXTENDS Integers, Sequences

Line(k, id, a, b, c, s) == [k |-> k, id |-> id, a |-> a, b |-> b, c |-> c, s |-> s]

(* attributes of an event that Manager / Value / Protocol read when
   dispatching it: a peer must not be able to set them through "meta"      *)
Protected == {"cause", "effects", "value", "handler", "channels", "waitingHandlers",
              "cancelled", "stopped", "name", "alert_done", "success", "failure",
              "complete", "notify", "parent", "args", "kwargs", "child",
              "success_channels", "complete_channels", "node_call_id", "node_sock"}

(* per send: proj, sok, rok, ex = times executed, rel = 0 running/none,
   1 returned value `val`, 2 raised; del = times delivered                  *)
P0 == [ev |-> <<>>, nowr |-> FALSE, h0 |-> FALSE, h1 |-> FALSE]

Known(P, sid) == sid \in 1..Len(P.ev)
Strict(e) == e.sok /\ e.rok

QuietFail(P) ==
  IF \E i \in 1..Len(P.ev) : Strict(P.ev[i]) /\ ~P.h0 /\ P.ev[i].ex = 0
    THEN "C19.lost"
  ELSE IF \E i \in 1..Len(P.ev) : Strict(P.ev[i]) /\ ~P.h0 /\ ~P.h1 /\ ~P.ev[i].nr
                                   /\ P.ev[i].rel # 0 /\ P.ev[i].del = 0
    THEN "C19.result"
  ELSE ""

Fail(P, ln) ==
  CASE ln.k = "send" ->
         IF ln.id # Len(P.ev) + 1 THEN "C19.malformed" ELSE ""
    [] ln.k = "wr" ->
         IF ln.id = 0 /\ P.nowr THEN "C19.fw_send" ELSE ""
    [] ln.k = "exec" ->
         IF ~Known(P, ln.id) THEN "C19.malformed"
         ELSE LET e == P.ev[ln.id] IN
              IF ~e.sok THEN "C19.fw_send"
              ELSE IF ~e.rok THEN "C19.fw_recv"
              ELSE IF e.ex >= 1 THEN "C19.twice"
              ELSE IF ln.a # e.proj THEN "C19.fidelity"
              ELSE ""
    [] ln.k = "release" ->
         IF ~Known(P, ln.id) THEN "C19.malformed"
         ELSE IF P.ev[ln.id].ex = 0 \/ P.ev[ln.id].rel # 0 THEN "C19.malformed" ELSE ""
    [] ln.k = "deliver" ->
         IF ~Known(P, ln.id) THEN "C19.malformed"
         ELSE LET e == P.ev[ln.id] IN
              IF e.nr THEN "C19.malformed"          \* nobody waits for it
              ELSE IF ~Strict(e) \/ P.h1 THEN ""   \* C19 is silent
              ELSE IF e.del >= 1 THEN "C19.result"  \* resumed twice
              ELSE IF e.rel = 0 THEN "C19.result"   \* before the callee finished
              ELSE IF e.rel = 1 /\ (ln.a # e.val \/ ln.b # 0) THEN "C19.result"
              ELSE IF e.rel = 2 /\ ln.b # 1 THEN "C19.result"
              ELSE ""
    [] ln.k = "hattr" ->
         IF ln.a = 1 /\ ln.s \in Protected THEN "C19.attr_overwritten" ELSE ""
    [] ln.k = "escape" -> "C19.loop_dead"
    [] ln.k = "probe" -> IF ln.a # 1 THEN "C19.loop_dead" ELSE ""
    [] ln.k = "quiet" -> QuietFail(P)
    [] OTHER -> ""

NewEv(ln) == [proj |-> ln.a, sok |-> ln.b = 1, rok |-> ln.c = 1, nr |-> ln.s = "nr",
              ex |-> 0, rel |-> 0, val |-> 0, del |-> 0]

Apply(P, ln) ==
  LET Q == IF ln.k = "wr" \/ ln.k = "deliver" \/ ln.k = "exec" \/ ln.k = "hattr" \/ ln.k = "escape"
           THEN P ELSE [P EXCEPT !.nowr = FALSE]   \* a new harness step begins
  IN
  CASE ln.k = "send" -> [Q EXCEPT !.ev = Append(@, NewEv(ln)), !.nowr = (ln.b # 1)]
    [] ln.k = "exec" /\ Known(P, ln.id) -> [Q EXCEPT !.ev[ln.id].ex = @ + 1]
    [] ln.k = "release" /\ Known(P, ln.id) ->
         [Q EXCEPT !.ev[ln.id].rel = IF ln.b = 1 THEN 2 ELSE 1, !.ev[ln.id].val = ln.a]
    [] ln.k = "deliver" /\ Known(P, ln.id) -> [Q EXCEPT !.ev[ln.id].del = @ + 1]
    [] ln.k = "hostile" -> IF ln.id = 0 THEN [Q EXCEPT !.h0 = TRUE] ELSE [Q EXCEPT !.h1 = TRUE]
    [] OTHER -> Q

(* Fold a sequence of lines through the monitor: <<P', firstBad>> *)
RECURSIVE Run(_, _, _)
Run(P, lines, badSoFar) ==
  IF lines = <<>> THEN <<P, badSoFar>>
  ELSE LET ln == Head(lines)
           f  == IF badSoFar = "" THEN Fail(P, ln) ELSE badSoFar
       IN Run(Apply(P, ln), Tail(lines), f)
=============================================================================
