SPECIFICATION Spec
CONSTANTS
  Sizes = {"s"}
  Pays = {"plain"}
  FwKinds = {"ok"}
  FwConfigs = {"--"}
  Values = {1}
  NoResult = {FALSE, TRUE}
  ErrReplies = FALSE
  HostileClasses = {}
  MetaKeys = {}
  MaxSends = 2
  MaxHostile = 0
  MaxCuts = 0
  MaxSteps = 8
  Dev = {}
INVARIANT Conforms
CHECK_DEADLOCK FALSE
