SPECIFICATION Spec
CONSTANTS
  Roles = {"server", "client"}
  MaxFrames = 1
  DataLens = {0, 1, 126, 65536}
  PingLens = {0, 125}
  CloseLens = {0, 2}
  MaxReads = 3
  MaxWrites = 0
  WriteLens = {0}
  MaxCloses = 0
  Defects = {}
INVARIANT Conforms
CHECK_DEADLOCK FALSE
