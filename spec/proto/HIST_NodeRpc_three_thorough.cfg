SPECIFICATION Spec
CONSTANTS
  Sizes = {"s"}
  Pays = {"plain"}
  FwKinds = {"ok"}
  FwConfigs = {"--"}
  Values = {1}
  NoResult = {FALSE}
  ErrReplies = FALSE
  HostileClasses = {}
  MetaKeys = {}
  MaxSends = 3
  MaxHostile = 0
  MaxCuts = 1
  MaxSteps = 8
  Dev = {}
INVARIANT Conforms
CHECK_DEADLOCK FALSE
