SPECIFICATION Spec
CONSTANTS
  Sizes = {"s"}
  Pays = {"plain"}
  FwKinds = {"ok", "sblk", "rblk"}
  FwConfigs = {"--", "S-", "-R", "SR"}
  Values = {1}
  NoResult = {FALSE}
  ErrReplies = TRUE
  HostileClasses = {}
  MetaKeys = {}
  MaxSends = 2
  MaxHostile = 0
  MaxCuts = 1
  MaxSteps = 7
  Dev = {}
INVARIANT TypeOK
INVARIANT Conforms
INVARIANT ExecOnce
INVARIANT Firewalled
INVARIANT LoopAlive
INVARIANT QuietDone
INVARIANT NoWaiter
VIEW View
CHECK_DEADLOCK FALSE
