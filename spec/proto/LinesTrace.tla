---------------------------- MODULE LinesTrace ----------------------------
(* C18, line protocol part - trace specification: judges traces recorded
   from a real circuits.protocols.line.Line (client mode and server mode)
   with the monitor of LinesOps (the operators Lines.tla is checked against).
   A trace is a record [cfg |-> [nsock |-> n, ...], lines |-> <<...>>].
   One initial state per trace, one step per line, total verdict.           *)
EXTENDS LinesOps, Json, IOUtils, TLC

Traces == JsonDeserialize(IOEnv.TRACE_FILE)

VARIABLES tid, l, P, bad, badline
vars == <<tid, l, P, bad, badline>>

Init == /\ tid \in 1..Len(Traces) /\ l = 1 /\ P = P0(Traces[tid].cfg.nsock)
        /\ bad = "" /\ badline = 0

Next == /\ l <= Len(Traces[tid].lines)
        /\ LET ln == Traces[tid].lines[l]
               f  == Fail(P, ln)
           IN /\ bad' = IF bad = "" THEN f ELSE bad
              /\ badline' = IF bad = "" /\ f # "" THEN l ELSE badline
              /\ P' = Apply(P, ln)
        /\ l' = l + 1
        /\ UNCHANGED tid

Spec == Init /\ [][Next]_vars

Report == (l = Len(Traces[tid].lines) + 1) => PrintT(<<"VERDICT", tid, bad, badline>>)
=============================================================================
