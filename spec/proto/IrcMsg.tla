------------------------------ MODULE IrcMsg ------------------------------
(* C18, IRC part - generative model of circuits.protocols.irc.message.Message
   (constructor check, __str__/__bytes__), the command constructors of
   commands.py, the IRC component's default `request` handler (which turns a
   command event into one `write` event for the transport), and the reader the
   repository uses on the other side (circuits.protocols.line.splitLines /
   a peer's Line component + circuits.protocols.irc.utils.parsemsg).

   The environment chooses a case: kind ("raw" = Message(command, args...,
   prefix=..), "cmd" = a command constructor NAME(args...) = Message(NAME,
   args...), "whois" = WHOIS(nickmasks, server)), the prefix, the command and
   the argument strings, all byte strings over small token alphabets (see
   LinesOps / IrcMsgOps).  Token 9 (KW) stands for a well-formed command word
   (the constructor's name).

   The system part is shaped like the code; the variant is chosen in the
   initial state from the constant set Variants:
     variant = "pinned"  the pinned tree: refuses LF in an argument and SP in
                         a non-final argument, nothing else; ':' is put in
                         front of the last argument iff it contains SP and does
                         not already start with ':'; WHOIS passes `server` as
                         the command.  TLC must find violations (teeth); the
                         replayed histories contain its counterexamples.
     variant = "fixed"   the tree with fixes/C18-irc-message-validation.diff:
                         also refuses CR in arguments, SP/CR/LF in prefix and
                         command, an empty / None / ':'-leading command; WHOIS
                         uses the command WHOIS.  Still violates C18.roundtrip
                         (argument shapes, see known findings).
     variant = "strict"  a reference serialiser that refuses everything it
                         cannot represent and marks every last argument that
                         needs it.  Model-checked to satisfy the monitor: C18
                         is satisfiable, the monitor is not vacuous.
     variant = "cut512"  "fixed", but the component writes only the first
                         CutLen bytes of bytes(message) (CutLen stands for the
                         512 of RFC 1459): a longer message goes out without
                         its terminator and the next command is glued onto the
                         same line at the peer.  TLC must find
                         C18.no_terminator (teeth).
   Every command goes message -> bytes(message) ("wire", read back with
   splitLines) -> the component's write ("sent", one per command, equal to the
   wire form except in "cut512") -> the peer's Line component, which keeps an
   unterminated rest (variable-free here: `pb` is threaded through Go).  With
   FollowUp a second, fixed command (Message('a', 'a')) is sent through the
   same component and peer after every serialised case: two commands in a row
   must come out as two lines.
   The exhaustive configurations use {"strict"} with the invariants below;
   the case dump uses all variants and the driver checks that TLC's monitor
   flags "pinned", "fixed" and "cut512" (bad # "") and that "strict" sends.
   A variant is a generator, never an oracle: verdicts on the real code come
   from the monitor (IrcMsgOps) alone.                                      *)
EXTENDS IrcMsgOps, Naturals, FiniteSets, TLC

CONSTANTS Kinds,       \* subset of {"raw", "cmd", "whois"}
          HeadTokens,  \* tokens of prefix / command strings (raw, whois server)
          MaxPfxLen, MaxCmdLen,
          CrossHeads,  \* BOOLEAN: raw cases combine every prefix with every command
                       \* (FALSE: a raw case with a prefix has a benign command, <<3>> or <<KW>>)
          ArgTokens,   \* tokens of argument strings
          MaxArgs, MaxLen,
          CutLen,      \* the length limit of the "cut512" variant (stands for 512)
          FollowUp,    \* BOOLEAN: a second fixed command after every serialised case
          Variants     \* subset of {"pinned", "fixed", "strict", "cut512"}

VARIABLES variant,
          stage,  \* "head" | "args" | "done"
          cs,     \* the case chosen so far [kind, hp, p, hc, c, args]
          P, bad, \* monitor state and verdict
          res,    \* outcome: [status |-> "" | "rejected" | "sent", m, w]
          out     \* emitted trace lines
(* the environment history is cs (complete when stage = "done") *)
vars == <<variant, stage, cs, P, bad, res, out>>

KW  == 9
NUL == 8
NoneWord == <<178, 211, 210, 201>>    \* str(None)

Strs(T, lo, hi) == UNION {[1..n -> T] : n \in lo..hi}
Has(s, t) == \E i \in 1..Len(s) : s[i] = t
Last(s) == s[Len(s)]
Lead(s, t) == s # <<>> /\ s[1] = t

(* a byte string that is not UTF-8: 4 must be followed by 5, 5 preceded by 4 *)
BadUtf8(s) == \E i \in 1..Len(s) : \/ (s[i] = 4 /\ (i = Len(s) \/ s[i + 1] # 5))
                                    \/ (s[i] = 5 /\ (i = 1 \/ s[i - 1] # 4))

RECURSIVE JoinSP(_)
JoinSP(ss) == IF ss = <<>> THEN <<>>
              ELSE IF Len(ss) = 1 THEN ss[1]
              ELSE ss[1] \o <<SP>> \o JoinSP(Tail(ss))

-----------------------------------------------------------------------------
(* the reader: parsemsg applied to one line                                 *)
IsWS(t) == t \in {SP, CR, LF}          \* what str.split() treats as blank among the tokens

RECURSIVE WordsFrom(_, _, _, _)
WordsFrom(s, i, cur, acc) ==
  IF i > Len(s) THEN (IF cur = <<>> THEN acc ELSE Append(acc, cur))
  ELSE IF IsWS(s[i]) THEN WordsFrom(s, i + 1, <<>>, IF cur = <<>> THEN acc ELSE Append(acc, cur))
  ELSE WordsFrom(s, i + 1, Append(cur, s[i]), acc)
Words(s) == WordsFrom(s, 1, <<>>, <<>>)

FirstSP(s, from) == LET I == {i \in from..Len(s) : s[i] = SP}
                    IN IF I = {} THEN 0 ELSE CHOOSE i \in I : \A j \in I : i <= j
FirstSPColon(s)  == LET I == {i \in 1..(Len(s) - 1) : s[i] = SP /\ s[i + 1] = COLON}
                    IN IF I = {} THEN 0 ELSE CHOOSE i \in I : \A j \in I : i <= j

ParseLine(s) ==
  LET hasp == Lead(s, COLON)
      sp   == IF hasp THEN FirstSP(s, 2) ELSE 0
  IN IF hasp /\ sp = 0 THEN Plain("parse_error")       \* `prefix, s = s[1:].split(' ', 1)` raises
     ELSE LET pfx  == IF hasp THEN SubSeq(s, 2, sp - 1) ELSE <<>>
              rest == IF hasp THEN SubSeq(s, sp + 1, Len(s)) ELSE s
              t    == FirstSPColon(rest)
              ws   == IF t = 0 THEN Words(rest)
                      ELSE Append(Words(SubSeq(rest, 1, t - 1)), SubSeq(rest, t + 2, Len(rest)))
          IN Rec("parsed", pfx # <<>>, pfx, ws # <<>>,
                 IF ws = <<>> THEN <<>> ELSE ws[1],
                 IF ws = <<>> THEN <<>> ELSE Tail(ws), <<>>)

-----------------------------------------------------------------------------
(* the message the code builds from a case *)
MsgOf(c) ==
  IF c.kind = "whois" /\ variant # "pinned"
  THEN [hp |-> FALSE, p |-> <<>>, hc |-> TRUE, c |-> <<KW>>,
        a |-> (IF c.hc THEN <<c.c>> ELSE <<>>) \o c.args]
  ELSE [hp |-> c.hp, p |-> c.p, hc |-> c.hc, c |-> c.c, a |-> c.args]

Refused(m) ==
  LET n == Len(m.a)
      pinned == \/ \E i \in 1..n : BadUtf8(m.a[i])              \* bytes argument that does not decode
                \/ \E i \in 1..n : Has(m.a[i], LF)
                \/ \E i \in 1..(n - 1) : Has(m.a[i], SP)
      fixed  == \/ pinned
                \/ \E i \in 1..n : Has(m.a[i], CR)
                \/ ~m.hc \/ m.c = <<>> \/ Lead(m.c, COLON)
                \/ Has(m.c, SP) \/ Has(m.c, CR) \/ Has(m.c, LF)
                \/ Has(m.p, SP) \/ Has(m.p, CR) \/ Has(m.p, LF)
      strict == \/ fixed
                \/ \E i \in 1..(n - 1) : m.a[i] = <<>> \/ Lead(m.a[i], COLON)
  IN CASE variant = "pinned" -> pinned
       [] variant \in {"fixed", "cut512"} -> fixed
       [] OTHER              -> strict

WireOf(m) ==
  LET n    == Len(m.a)
      mark == IF n = 0 THEN FALSE
              ELSE IF variant = "strict"
                   THEN Last(m.a) = <<>> \/ Has(Last(m.a), SP) \/ Lead(Last(m.a), COLON)
                   ELSE Has(Last(m.a), SP) /\ ~Lead(Last(m.a), COLON)
      args == IF mark THEN [m.a EXCEPT ![n] = <<COLON>> \o @] ELSE m.a
  IN (IF m.hp THEN <<COLON>> \o m.p \o <<SP>> ELSE <<>>)
     \o (IF m.hc THEN m.c ELSE NoneWord) \o <<SP>> \o JoinSP(args) \o <<CR, LF>>

Emit(lines) == LET r == Run(P, lines, bad) IN P' = r[1] /\ bad' = r[2] /\ out' = out \o lines

C0 == [kind |-> "", hp |-> FALSE, p |-> <<>>, hc |-> FALSE, c |-> <<>>, args |-> <<>>]
R0 == [status |-> "", m |-> M0, w |-> <<>>]

Init == /\ variant \in Variants /\ stage = "head" /\ cs = C0 /\ P = P0 /\ bad = "" /\ res = R0 /\ out = <<>>

ChooseHead(kind, hp, p, hc, c) ==
  /\ stage = "head" /\ kind \in Kinds
  /\ CASE kind = "raw"   -> hc /\ (hp \/ p = <<>>) /\ (CrossHeads \/ ~hp \/ c \in {<<3>>, <<KW>>})
       [] kind = "cmd"   -> ~hp /\ p = <<>> /\ hc /\ c = <<KW>>
       [] kind = "whois" -> ~hp /\ p = <<>> /\ (hc \/ c = <<>>)
  /\ cs' = [kind |-> kind, hp |-> hp, p |-> p, hc |-> hc, c |-> c, args |-> <<>>]
  /\ stage' = "args"
  /\ UNCHANGED <<variant, P, bad, res, out>>

AddArg(a) ==
  /\ stage = "args"
  /\ Len(cs.args) < (IF cs.kind = "whois" THEN 1 ELSE MaxArgs)
  /\ cs' = [cs EXCEPT !.args = Append(@, a)]
  /\ UNCHANGED <<variant, stage, P, bad, res, out>>

(* what the IRC component hands to the transport for a serialised message *)
SentOf(w) == IF variant = "cut512" /\ Len(w) > CutLen THEN SubSeq(w, 1, CutLen) ELSE w

(* the trace lines of one command: message, bytes(message) read back alone,
   the component's write read by the peer's Line component holding pb.
   Returns <<lines, pb'>>.                                                  *)
Block(m, pb) ==
  LET w  == WireOf(m)
      ls == L!Split(w)[1]
      s  == SentOf(w)
      r  == L!Split(pb \o s)
  IN << <<Rec("msg", m.hp, m.p, m.hc, m.c, m.a, <<>>),
          Rec("wire", FALSE, <<>>, FALSE, <<>>, <<>>, w)>>
        \o [i \in 1..Len(ls) |-> ParseLine(ls[i])]
        \o <<Rec("sent", FALSE, <<>>, FALSE, <<>>, <<>>, s)>>
        \o [i \in 1..Len(r[1]) |-> ParseLine(r[1][i])],
        r[2] >>

Follow == [hp |-> FALSE, p |-> <<>>, hc |-> TRUE, c |-> <<3>>, a |-> << <<3>> >>]   \* Message('a', 'a')

(* build, serialise, send, read back *)
Go ==
  /\ stage = "args"
  /\ cs.kind = "whois" => Len(cs.args) = 1
  /\ stage' = "done" /\ UNCHANGED <<cs, variant>>
  /\ LET m == MsgOf(cs) IN
     IF Refused(m)
     THEN /\ res' = [status |-> "rejected", m |-> m, w |-> <<>>]
          /\ Emit(<<Plain("reject"), Plain("end")>>)
     ELSE LET b1 == Block(m, <<>>)
              b2 == IF FollowUp THEN Block(Follow, b1[2]) ELSE << <<>>, b1[2] >>
          IN /\ res' = [status |-> "sent", m |-> m, w |-> WireOf(m)]
             /\ Emit(b1[1] \o b2[1] \o <<Plain("end")>>)

Next == \/ /\ stage = "head"       \* guards outside the quantifiers: TLC enumerates the bound sets first
           /\ \E kind \in Kinds, hp \in BOOLEAN, hc \in BOOLEAN :
                \E p \in Strs(HeadTokens, 0, MaxPfxLen), c \in Strs(HeadTokens, 0, MaxCmdLen) \cup {<<KW>>} :
                   ChooseHead(kind, hp, p, hc, c)
        \/ /\ stage = "args"
           /\ \E a \in Strs(ArgTokens, 0, MaxLen) : AddArg(a)
        \/ Go

Spec == Init /\ [][Next]_vars

-----------------------------------------------------------------------------
TypeOK == stage \in {"head", "args", "done"} /\ bad \in STRING

(* C18 as the monitor's verdict *)
Conforms == variant = "strict" => bad = ""

(* C18 stated directly on the outcome (independent of the monitor): whatever
   is sent is exactly one CRLF-terminated line and the reader gives back the
   message                                                                  *)
SentIsOneLine == (variant = "strict" /\ res.status = "sent") => OneLine(res.w)
SentRoundTrips ==
  (variant = "strict" /\ res.status = "sent") =>
    LET ls == L!Split(res.w)[1]
    IN /\ Len(ls) = 1 /\ L!Split(res.w)[2] = <<>>
       /\ LET r == ParseLine(ls[1]) IN r.k = "parsed" /\ SameMsg(res.m, r)

=============================================================================
