SPECIFICATION Spec
CONSTANTS
  Roles = {"server", "client"}
  MaxFrames = 2
  DataLens = {0, 1, 126, 65536}
  PingLens = {0, 1}
  CloseLens = {0, 2}
  MaxReads = 2
  MaxWrites = 0
  WriteLens = {0}
  MaxCloses = 0
  Defects = {}
INVARIANT Conforms
CHECK_DEADLOCK FALSE
