--------------------------- MODULE NodeRpcTrace ---------------------------
(* C19 - trace specification: judges traces recorded from two real
   circuits.node Protocol components wired back to back, with the monitor of
   NodeRpcOps (the same operators the generative model NodeRpc.tla is checked
   against).  One initial state per trace; each step consumes one line; the
   verdict is total: the first failing clause is kept in `bad`.             *)
EXTENDS NodeRpcOps, Json, IOUtils, TLC

Traces == JsonDeserialize(IOEnv.TRACE_FILE)

VARIABLES tid, l, P, bad, badline
vars == <<tid, l, P, bad, badline>>

Init == /\ tid \in 1..Len(Traces) /\ l = 1 /\ P = P0 /\ bad = "" /\ badline = 0

Next == /\ l <= Len(Traces[tid])
        /\ LET ln == Traces[tid][l]
               f  == Fail(P, ln)
           IN /\ bad' = IF bad = "" THEN f ELSE bad
              /\ badline' = IF bad = "" /\ f # "" THEN l ELSE badline
              /\ P' = Apply(P, ln)
        /\ l' = l + 1
        /\ UNCHANGED tid

Spec == Init /\ [][Next]_vars

Report == (l = Len(Traces[tid]) + 1) => PrintT(<<"VERDICT", tid, bad, badline>>)
=============================================================================
