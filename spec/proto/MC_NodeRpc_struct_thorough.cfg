SPECIFICATION Spec
CONSTANTS
  Sizes = {"s", "b"}
  Pays = {"plain", "wirekey", "brace"}
  FwKinds = {"ok"}
  FwConfigs = {"--"}
  Values = {1, 3, 4, 6}
  NoResult = {FALSE}
  ErrReplies = FALSE
  HostileClasses = {}
  MetaKeys = {}
  MaxSends = 2
  MaxHostile = 0
  MaxCuts = 2
  MaxSteps = 9
  Dev = {}
INVARIANT TypeOK
INVARIANT Conforms
INVARIANT ExecOnce
INVARIANT Firewalled
INVARIANT LoopAlive
INVARIANT QuietDone
INVARIANT NoWaiter
VIEW View
CHECK_DEADLOCK FALSE
