SPECIFICATION Spec
CONSTANTS
  Roles = {"server", "client"}
  MaxFrames = 2
  DataLens = {0, 1, 126}
  PingLens = {0}
  CloseLens = {0}
  MaxReads = 2
  MaxWrites = 0
  WriteLens = {0}
  MaxCloses = 0
  Defects = {}
INVARIANT Conforms
CHECK_DEADLOCK FALSE
