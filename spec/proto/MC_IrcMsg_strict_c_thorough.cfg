SPECIFICATION Spec
CONSTANTS
  Kinds = {"raw", "cmd", "whois"}
  HeadTokens = {1, 2, 3, 6, 7, 8}
  MaxPfxLen = 2
  MaxCmdLen = 2
  CrossHeads = TRUE
  ArgTokens = {1, 2, 3, 4, 5, 6, 7, 8}
  MaxArgs = 2
  MaxLen = 1
  CutLen = 6
  FollowUp = TRUE
  Variants = {"strict"}
INVARIANT TypeOK
INVARIANT Conforms
INVARIANT SentIsOneLine
INVARIANT SentRoundTrips
CHECK_DEADLOCK FALSE
