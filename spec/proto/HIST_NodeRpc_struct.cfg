SPECIFICATION Spec
CONSTANTS
  Sizes = {"s", "b"}
  Pays = {"plain", "wirekey", "brace"}
  FwKinds = {"ok"}
  FwConfigs = {"--"}
  Values = {1, 3, 4, 6}
  NoResult = {FALSE}
  ErrReplies = FALSE
  HostileClasses = {}
  MetaKeys = {}
  MaxSends = 1
  MaxHostile = 0
  MaxCuts = 2
  MaxSteps = 7
  Dev = {}
INVARIANT Conforms
CHECK_DEADLOCK FALSE
