SPECIFICATION Spec
CONSTANTS
  Sizes = {"s", "b"}
  Pays = {"plain"}
  FwKinds = {"ok"}
  FwConfigs = {"--"}
  Values = {1}
  NoResult = {FALSE}
  ErrReplies = FALSE
  HostileClasses = {}
  MetaKeys = {}
  MaxSends = 2
  MaxHostile = 0
  MaxCuts = 2
  MaxSteps = 6
  Dev = {}
INVARIANT Conforms
CHECK_DEADLOCK FALSE
