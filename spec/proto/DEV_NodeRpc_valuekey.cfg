SPECIFICATION Spec
CONSTANTS
  Sizes = {"s", "b"}
  Pays = {"plain", "tilde", "valkey"}
  FwKinds = {"ok"}
  FwConfigs = {"--"}
  Values = {1}
  NoResult = {FALSE}
  ErrReplies = TRUE
  HostileClasses = {}
  MetaKeys = {}
  MaxSends = 2
  MaxHostile = 0
  MaxCuts = 1
  MaxSteps = 8
  Dev = {"valuekey"}
INVARIANT TypeOK
INVARIANT Conforms
INVARIANT ExecOnce
INVARIANT Firewalled
INVARIANT LoopAlive
INVARIANT QuietDone
VIEW View
CHECK_DEADLOCK FALSE
