SPECIFICATION Spec
CONSTANTS
  Roles = {"server", "client"}
  MaxFrames = 1
  DataLens = {0, 126}
  PingLens = {0}
  CloseLens = {0}
  MaxReads = 99
  MaxWrites = 1
  WriteLens = {126}
  MaxCloses = 1
  Defects = {}
INVARIANT Conforms
INVARIANT TypeOK
INVARIANT DeliveredExactly
INVARIANT PongsExactly
INVARIANT DecoderPosition
INVARIANT NothingAfterClose
VIEW View
CHECK_DEADLOCK FALSE
