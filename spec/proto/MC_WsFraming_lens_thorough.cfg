SPECIFICATION Spec
CONSTANTS
  Roles = {"server", "client"}
  MaxFrames = 2
  DataLens = {0, 1, 125, 126, 127, 65535, 65536, 70000}
  PingLens = {0, 125}
  CloseLens = {0, 2}
  MaxReads = 99
  MaxWrites = 0
  WriteLens = {0, 125, 126, 65535, 65536}
  MaxCloses = 0
  Defects = {}
INVARIANT Conforms
INVARIANT TypeOK
INVARIANT DeliveredExactly
INVARIANT PongsExactly
INVARIANT DecoderPosition
INVARIANT NothingAfterClose
VIEW View
CHECK_DEADLOCK FALSE
