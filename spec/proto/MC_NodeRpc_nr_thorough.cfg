SPECIFICATION Spec
CONSTANTS
  Sizes = {"s"}
  Pays = {"plain"}
  FwKinds = {"ok", "sblk"}
  FwConfigs = {"--", "S-"}
  Values = {1}
  NoResult = {FALSE, TRUE}
  ErrReplies = FALSE
  HostileClasses = {}
  MetaKeys = {}
  MaxSends = 3
  MaxHostile = 0
  MaxCuts = 1
  MaxSteps = 10
  Dev = {}
INVARIANT TypeOK
INVARIANT Conforms
INVARIANT ExecOnce
INVARIANT Firewalled
INVARIANT LoopAlive
INVARIANT QuietDone
INVARIANT NoWaiter
VIEW View
CHECK_DEADLOCK FALSE
