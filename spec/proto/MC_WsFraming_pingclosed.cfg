SPECIFICATION Spec
CONSTANTS
  Roles = {"server", "client"}
  MaxFrames = 2
  DataLens = {0, 1}
  PingLens = {0, 1}
  CloseLens = {0}
  MaxReads = 99
  MaxWrites = 0
  WriteLens = {0}
  MaxCloses = 1
  Defects = {"pingclosed"}
INVARIANT Conforms
INVARIANT TypeOK
INVARIANT DeliveredExactly
INVARIANT PongsExactly
INVARIANT DecoderPosition
INVARIANT NothingAfterClose
VIEW View
CHECK_DEADLOCK FALSE
