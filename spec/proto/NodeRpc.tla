------------------------------ MODULE NodeRpc ------------------------------
(* C19 - generative model of two circuits.node peers.

   Side 0 ("A") fires remote events (Protocol.send) and a handler waits for
   each result; side 1 ("B") loads, dispatches and answers them
   (Protocol.add_buffer / __process_packet_call / result_handler /
   send_result); A's waiting handler resumes when the value packet arrives
   (__process_packet_value).  B - or whoever sits at the other end of the
   B->A connection - may also put packets of a hostile grammar on the wire.

   The byte stream of a direction is modelled at layout level: a sequence of
   packets, each a payload of n cells of weight w followed by the 3 cells of
   the delimiter "~~~" (weight 1 each).  A small payload has 2 cells (one
   interior cut position), a payload larger than the 4 KiB read buffer has 3
   cells of weight 4; one read takes at most BufW = 10 weight, so a big packet
   never arrives in one read while two small packets with their delimiters do.
   Read(d, k) is the environment handing the next k cells to the receiver;
   taking fewer cells than the buffer allows is a cut (budget MaxCuts).  The
   replay maps cells to bytes (interior cell boundaries fall on seeded byte
   offsets inside the JSON text; delimiter cells are its three bytes).

   The receiver is implementation-shaped: it splits its buffer on the
   delimiter, processes every piece, and keeps an undecodable tail until more
   data arrives (a tail that already is a complete JSON text is processed at
   once, as Protocol.add_buffer does).  Environment steps are taken only when
   the system is settled (pend = <<>>), as the harness does; the system
   actions Execute / Reject / Deliver / HDispatch / HValue / HChan / Probe work the
   queue of packets a read made complete (garbage pieces are dropped).

   Dev is the set of deviations of the pinned implementation from the
   algorithm C19 needs; with Dev = {} the model obeys the C19 monitor
   (invariant Conforms), with each deviation TLC must find the violation
   (the model has teeth; its counterexample histories are replayed):
     "discard"    add_buffer drops a tail it cannot decode instead of keeping it
     "metakeys"   load_event lets the peer set cause / effects / complete_channels
     "chanunhash" load_event accepts unhashable channels (the dispatcher's cache lookup raises)
     "tilde"      a payload containing "~~~" is written unescaped (splits into two garbage pieces)
     "valuekey"   a call packet containing the text "value": is taken for a value packet
     "errsilent"  a callee handler that raises produces no reply
   and two variants of the repaired implementation (seeded defects):
     "namesniff"  a packet is taken for a call iff it contains the text "name": - an answer whose
                  result is an object with a key called name is dropped
     "truthyonly" the sender stores an answer only if its value is truthy: a result 0, 0.0, false,
                  "", [] or {} resumes the waiting handler with no value
     "bracecount" the undelimited tail counts as complete when its braces balance: a payload string
                  with an unbalanced "}" and a read ending right behind it is consumed and lost
   A deviation is a generator of histories, never an oracle.                *)
EXTENDS NodeRpcOps, Naturals, FiniteSets, TLC

CONSTANTS Sizes,          \* subset of {"s", "b"}: call payload sizes
          Pays,           \* subset of {"plain", "tilde", "valkey", "wirekey", "brace"}: payload content classes
                          \* (wirekey: objects whose keys are the wire format's own: name, value, id, meta ...;
                          \*  brace: strings with JSON structural characters, one "}" not balanced before it)
          FwKinds,        \* subset of {"ok", "sblk", "rblk"}: what the firewall predicates say about the event
          FwConfigs,      \* subset of {"--", "S-", "-R", "SR"}: which firewalls are installed
          Values,         \* subset of 1..6: result value ids (1 small, 2 larger than 4 KiB, 3 wirekey object, 4 brace string,
                          \* 6 a falsy value other than None: 0, 0.0, false, "", [], {})
          ErrReplies,     \* BOOLEAN: a callee handler may raise
          NoResult,       \* subset of BOOLEAN: TRUE = sends nobody waits for (node_without_result)
          HostileClasses, \* subset of {"trunc","types","missing","oversize","delim","chanlist","vforge"}
          MetaKeys,       \* metadata keys of the hostile grammar
          MaxSends, MaxHostile, MaxCuts, MaxSteps,
          Dev

BufW == 10
PinnedSettable == {"cause", "effects", "complete_channels"}

VARIABLES fw,      \* firewall configuration
          chan,    \* [0..1 -> Seq(packet)]  everything written in a direction so far
          rpos,    \* [0..1 -> Nat]          cells handed to the receiver
          bstart,  \* [0..1 -> Nat]          where the receiver's buffer (Protocol.__buffer) starts
          evs,     \* per send id: [fwk, sok, rok, ex, running, waiting]
          pend,    \* work the last environment step left for the system
          ncuts, nhost,
          alive,   \* no exception left a dispatcher
          P, bad,  \* monitor state, first failed clause
          hist,    \* environment history: what a replay drives
          out      \* every line emitted so far

vars == <<fw, chan, rpos, bstart, evs, pend, ncuts, nhost, alive, P, bad, hist, out>>

Emit(lines) == LET r == Run(P, lines, bad) IN P' = r[1] /\ bad' = r[2] /\ out' = out \o lines
H(op, s1, s2, s3, n1, n2) == <<op, s1, s2, s3, n1, n2>>

Pkt(kind, id, n, w, v, err, key, host) ==
  [kind |-> kind, id |-> id, n |-> n, w |-> w, v |-> v, err |-> err, key |-> key, host |-> host, trap |-> 0]
(* the interior cell boundary 1 of a "brace" payload is the byte right behind the unbalanced "}" *)
Trapped(p) == [p EXCEPT !.trap = 1]
Small(kind, id, v, err, key, host) == Pkt(kind, id, 2, 1, v, err, key, host)
Big(kind, id, v, err, key, host)   == Pkt(kind, id, 3, 4, v, err, key, host)
Sized(size, kind, id, v, err, key, host) ==
  IF size = "b" THEN Big(kind, id, v, err, key, host) ELSE Small(kind, id, v, err, key, host)
(* a payload with the delimiter inside: two garbage pieces, each with a delimiter after it *)
SplitJunk(size, host) ==
  IF size = "b" THEN <<Pkt("junk", 0, 1, 4, 0, FALSE, "", host), Pkt("junk", 0, 2, 4, 0, FALSE, "", host)>>
  ELSE <<Pkt("junk", 0, 1, 1, 0, FALSE, "", host), Pkt("junk", 0, 1, 1, 0, FALSE, "", host)>>

-----------------------------------------------------------------------------
(* stream layout *)
RECURSIVE SLen(_)
SLen(s) == IF s = <<>> THEN 0 ELSE Head(s).n + 3 + SLen(Tail(s))
PStart(s, i) == SLen(SubSeq(s, 1, i - 1))
PEnd(s, i) == PStart(s, i) + s[i].n

RECURSIVE CellW(_, _)
CellW(s, x) == IF s = <<>> THEN 1
               ELSE IF x < Head(s).n THEN Head(s).w
               ELSE IF x < Head(s).n + 3 THEN 1
               ELSE CellW(Tail(s), x - Head(s).n - 3)

RECURSIVE Fit(_, _, _, _)
Fit(s, pos, total, budget) ==
  IF pos >= total THEN 0
  ELSE LET w == CellW(s, pos) IN IF w > budget THEN 0 ELSE 1 + Fit(s, pos + 1, total, budget - w)
Full(d) == Fit(chan[d], rpos[d], SLen(chan[d]), BufW)

(* the receiver's split of its buffer [from, to) on the delimiter: packet i is
   processed iff its payload is a piece of its own: it starts where the buffer
   starts or right after a delimiter that is wholly in the buffer, and it is
   followed by its whole delimiter or ends exactly where the buffer ends      *)
(* does the whole payload, still without its delimiter, pass the receiver's completeness test?
   (brace counting is wrong both ways: the payload with the extra "}" never balances) *)
LooksComplete(p) == ~("bracecount" \in Dev /\ p.trap > 0)

Proc(s, i, from, to) ==
  LET st == PStart(s, i)
      en == PEnd(s, i)
  IN /\ from <= st
     /\ (from = st \/ (i > 1 /\ from <= st - 3))
     /\ ((to = en /\ LooksComplete(s[i])) \/ to >= en + 3)

RECURSIVE ProcFrom(_, _, _, _)
ProcFrom(s, i, from, to) ==
  IF i > Len(s) THEN <<>>
  ELSE (IF Proc(s, i, from, to) /\ s[i].kind # "junk" THEN <<i>> ELSE <<>>) \o ProcFrom(s, i + 1, from, to)

SetMax(S) == CHOOSE m \in S : \A x \in S : x <= m

NewBStart(s, from, to) ==
  LET ends == {PEnd(s, i) + 3 : i \in {j \in 1..Len(s) : PEnd(s, j) >= from /\ PEnd(s, j) + 3 <= to}}
      ts   == IF ends = {} THEN from ELSE SetMax(ends)
  IN IF "discard" \in Dev THEN to              \* pinned: whatever cannot be decoded now is dropped
     ELSE IF ts = to THEN to
     ELSE IF \E i \in 1..Len(s) : PStart(s, i) = ts /\ PEnd(s, i) = to /\ LooksComplete(s[i]) THEN to   \* complete tail: processed
     ELSE IF "bracecount" \in Dev /\ \E i \in 1..Len(s) : s[i].trap > 0 /\ PStart(s, i) = ts
                                                           /\ PStart(s, i) + s[i].trap = to
          THEN to    \* braces balance: taken for complete, consumed, does not parse; the rest arrives as garbage
     ELSE ts                                                                     \* incomplete tail: kept

-----------------------------------------------------------------------------
SendOK(fwk) == ~(fw \in {"S-", "SR"} /\ fwk = "sblk")
RecvOK(fwk) == ~(fw \in {"-R", "SR"} /\ fwk = "rblk")

Init == /\ fw \in FwConfigs
        /\ chan = [d \in {0, 1} |-> <<>>] /\ rpos = [d \in {0, 1} |-> 0] /\ bstart = [d \in {0, 1} |-> 0]
        /\ evs = <<>> /\ pend = <<>> /\ ncuts = 0 /\ nhost = 0 /\ alive = TRUE
        /\ LET l0 == Line("cfg", 0, IF fw \in {"S-", "SR"} THEN 1 ELSE 0, IF fw \in {"-R", "SR"} THEN 1 ELSE 0, 0, "")
           IN /\ P = Apply(P0, l0) /\ out = <<l0>>
        /\ bad = ""
        /\ hist = <<H("C", fw, "", "", 0, 0)>>

LastKind == hist[Len(hist)][1]
CanStep == Len(hist) < MaxSteps /\ LastKind # "Q" /\ pend = <<>>

(* ---- environment ------------------------------------------------------- *)
Send(size, pay, fwk, nr) ==
  /\ CanStep /\ Len(evs) < MaxSends
  /\ LET sid == Len(evs) + 1
         sok == SendOK(fwk)
         rok == RecvOK(fwk)
         ev  == [fwk |-> fwk, sok |-> sok, rok |-> rok, ex |-> 0, running |-> FALSE, waiting |-> sok /\ ~nr]
         pk  == IF pay = "tilde" /\ "tilde" \in Dev THEN SplitJunk(size, FALSE)
                ELSE IF pay \in {"valkey", "wirekey"} /\ "valuekey" \in Dev THEN <<Sized(size, "junk", 0, 0, FALSE, "", FALSE)>>
                ELSE IF pay = "brace" THEN <<Trapped(Sized(size, "call", sid, 0, FALSE, "", FALSE))>>
                ELSE <<Sized(size, "call", sid, 0, FALSE, "", FALSE)>>
         sl  == Line("send", sid, sid, IF sok THEN 1 ELSE 0, IF rok THEN 1 ELSE 0, IF nr THEN "nr" ELSE "")
     IN /\ evs' = Append(evs, ev)
        /\ IF sok
           THEN /\ chan' = [chan EXCEPT ![0] = @ \o pk]
                /\ Emit(<<sl, Line("wr", 0, 0, 0, 0, "")>>)
           ELSE /\ UNCHANGED chan
                \* the send firewall refuses: nothing is written, the waiting handler (if any) resumes with no value
                /\ Emit(IF nr THEN <<sl>> ELSE <<sl, Line("deliver", sid, 0, 0, 0, "")>>)
  /\ hist' = Append(hist, H("S", size, pay, fwk, IF nr THEN 1 ELSE 0, 0))
  /\ UNCHANGED <<fw, rpos, bstart, pend, ncuts, nhost, alive>>

Read(d, k) ==
  /\ CanStep
  /\ LET s    == chan[d]
         full == Full(d)
         from == bstart[d]
         to   == rpos[d] + k
     IN /\ k \in 1..full
        /\ IF k < full THEN ncuts < MaxCuts /\ ncuts' = ncuts + 1 ELSE UNCHANGED ncuts
        /\ LET idx   == ProcFrom(s, 1, from, to)
               items == [j \in 1..Len(idx) |-> [op |-> "pkt", pk |-> s[idx[j]], side |-> 1 - d]]
               touch == \E i \in 1..Len(s) : s[i].host /\ PStart(s, i) < to /\ rpos[d] < PEnd(s, i) + 3
           IN pend' = items \o (IF touch THEN <<[op |-> "probe", pk |-> Small("junk", 0, 0, FALSE, "", FALSE), side |-> 1 - d]>>
                                ELSE <<>>)
        /\ rpos' = [rpos EXCEPT ![d] = to]
        /\ bstart' = [bstart EXCEPT ![d] = NewBStart(s, from, to)]
  /\ Emit(<<Line("read", d, 0, 0, 0, "")>>)
  /\ hist' = Append(hist, H("R", "", "", "", d, k))
  /\ UNCHANGED <<fw, chan, evs, nhost, alive>>

(* the callee's handler for sid finishes: returns value v or raises *)
Reply(id, v, err) ==
  /\ CanStep /\ id \in 1..Len(evs) /\ evs[id].running
  /\ (err => ErrReplies)
  /\ evs' = [evs EXCEPT ![id].running = FALSE]
  /\ LET rl == Line("release", id, IF err THEN 0 ELSE v, IF err THEN 1 ELSE 0, 0, "")
     IN IF err /\ "errsilent" \in Dev
        THEN /\ Emit(<<rl>>) /\ UNCHANGED chan
        ELSE /\ LET pk == Sized(IF ~err /\ v = 2 THEN "b" ELSE "s",
                                IF ~err /\ v = 3 /\ "namesniff" \in Dev THEN "junk" ELSE "reply",   \* taken for a call, KeyError, dropped
                                id, IF err THEN 0 ELSE v, err, "", FALSE)
                IN chan' = [chan EXCEPT ![1] = Append(@, IF ~err /\ v = 4 THEN Trapped(pk) ELSE pk)]
             /\ Emit(<<rl, Line("wr", 1, 0, 0, 0, "")>>)
  /\ hist' = Append(hist, H("P", IF err THEN "err" ELSE "ok", "", "", id, v))
  /\ UNCHANGED <<fw, rpos, bstart, pend, ncuts, nhost, alive>>

FirstSent == IF \E i \in 1..Len(evs) : evs[i].sok
             THEN CHOOSE i \in 1..Len(evs) : evs[i].sok /\ \A j \in 1..(i - 1) : ~evs[j].sok
             ELSE 0

HostilePkts(cls, key) ==
  CASE cls \in {"trunc", "types", "missing"} -> <<Small("junk", 0, 0, FALSE, "", TRUE)>>
    [] cls = "oversize" -> <<Big("junk", 0, 0, FALSE, "", TRUE)>>
    [] cls = "delim"    -> SplitJunk("s", TRUE)
    [] cls = "chanlist" -> <<Small("hchan", 0, 0, FALSE, "", TRUE)>>
    [] cls = "vforge"   -> <<Small("reply", FirstSent, -1, FALSE, "", TRUE)>>
    [] cls = "vmeta"    -> IF key = "name" /\ "namesniff" \in Dev
                           THEN <<Small("junk", 0, 0, FALSE, "", TRUE)>>   \* contains the text "name": - taken for a call
                           ELSE <<Small("hval", FirstSent, -1, FALSE, key, TRUE)>>
    [] cls = "meta"     -> IF key = "value" /\ "valuekey" \in Dev
                           THEN <<Small("junk", 0, 0, FALSE, "", TRUE)>>   \* contains the text "value": - taken for a value packet
                           ELSE <<Small("hcall", 0, 0, FALSE, key, TRUE)>>

(* whoever sits at the far end of the B->A connection writes a hostile packet *)
Hostile(cls, key) ==
  /\ CanStep /\ nhost < MaxHostile
  /\ nhost' = nhost + 1
  /\ chan' = [chan EXCEPT ![1] = @ \o HostilePkts(cls, key)]
  /\ Emit(<<Line("hostile", 1, IF cls = "meta" THEN 1 ELSE IF cls = "vmeta" THEN 2 ELSE 0, 0, 0,
                  IF cls \in {"meta", "vmeta"} THEN key ELSE cls)>>)
  /\ hist' = Append(hist, H("H", cls, key, "", 0, 0))
  /\ UNCHANGED <<fw, rpos, bstart, evs, pend, ncuts, alive>>

Quiet ==
  /\ CanStep /\ Len(hist) > 1
  /\ \A d \in {0, 1} : rpos[d] = SLen(chan[d])
  /\ \A i \in 1..Len(evs) : ~evs[i].running
  /\ Emit(<<Line("probe", 0, 1, 0, 0, ""), Line("probe", 1, 1, 0, 0, ""), Line("quiet", 0, 0, 0, 0, "")>>)
  /\ hist' = Append(hist, H("Q", "", "", "", 0, 0))
  /\ UNCHANGED <<fw, chan, rpos, bstart, evs, pend, ncuts, nhost, alive>>

(* ---- system: one action per packet the last read completed -------------- *)
Item == Head(pend)
IsPkt(kind) == pend # <<>> /\ Item.op = "pkt" /\ Item.pk.kind = kind

(* B dispatches the event *)
Execute ==
  /\ IsPkt("call") /\ evs[Item.pk.id].rok
  /\ evs' = [evs EXCEPT ![Item.pk.id].ex = @ + 1, ![Item.pk.id].running = TRUE]
  /\ Emit(<<Line("exec", Item.pk.id, Item.pk.id, 1, 0, "")>>)
  /\ pend' = Tail(pend)
  /\ UNCHANGED <<fw, chan, rpos, bstart, ncuts, nhost, alive, hist>>

(* B's receive firewall refuses: not dispatched, an empty result goes back *)
Reject ==
  /\ IsPkt("call") /\ ~evs[Item.pk.id].rok
  /\ chan' = [chan EXCEPT ![1] = Append(@, Small("reply", Item.pk.id, 0, FALSE, "", FALSE))]
  /\ Emit(<<Line("wr", 1, 0, 0, 0, "")>>)
  /\ pend' = Tail(pend)
  /\ UNCHANGED <<fw, rpos, bstart, evs, ncuts, nhost, alive, hist>>

(* A's waiting handler resumes with the value and error flag of the packet *)
Deliver ==
  /\ IsPkt("reply")
  /\ LET id == Item.pk.id IN
     IF id \in 1..Len(evs) /\ evs[id].waiting
     THEN /\ evs' = [evs EXCEPT ![id].waiting = FALSE]
          /\ Emit(<<Line("deliver", id, IF "truthyonly" \in Dev /\ Item.pk.v = 6 THEN 0 ELSE Item.pk.v,
                          IF Item.pk.err THEN 1 ELSE 0, 0, "")>>)
     ELSE /\ Emit(<<>>) /\ UNCHANGED evs
  /\ pend' = Tail(pend)
  /\ UNCHANGED <<fw, chan, rpos, bstart, ncuts, nhost, alive, hist>>

KeysOf(key) == IF key = "cause+effects" THEN <<"cause", "effects">> ELSE <<key>>
Ov(k) == IF k \in Protected THEN (IF "metakeys" \in Dev /\ k \in PinnedSettable THEN 1 ELSE 0) ELSE 1

(* the receiver builds an event from a hostile call packet with metadata,
   dispatches it and answers it *)
HDispatch ==
  /\ IsPkt("hcall")
  /\ LET side == Item.side
         ks   == KeysOf(Item.pk.key)
         ld   == [j \in 1..Len(ks) |-> Line("hattr", side, Ov(ks[j]), 0, 0, ks[j])]
         ex   == [j \in 1..Len(ks) |-> Line("hattr", side, Ov(ks[j]), 1, 0, ks[j])]
         dies == "metakeys" \in Dev /\ Item.pk.key = "cause"   \* _eventDone: event.effects -= 1 raises
     IN /\ chan' = [chan EXCEPT ![side] = Append(@, Small("junk", 0, 0, FALSE, "", FALSE))]
        /\ alive' = (alive /\ ~dies)
        /\ Emit(ld \o ex \o (IF dies THEN <<Line("escape", side, 0, 0, 0, "")>> ELSE <<>>)
                   \o <<Line("wr", side, 0, 0, 0, "")>>)
  /\ pend' = Tail(pend)
  /\ UNCHANGED <<fw, rpos, bstart, evs, ncuts, nhost, hist>>

(* a hostile *value* packet answering the first call, with metadata: the
   sender's event for that call must keep its protected attributes; ordinary
   metadata arrives, and the waiting handler resumes with the forged value   *)
HValue ==
  /\ IsPkt("hval")
  /\ LET id   == Item.pk.id
         wt   == id \in 1..Len(evs) /\ evs[id].waiting
         ks   == KeysOf(Item.pk.key)
         at   == [j \in 1..Len(ks) |-> Line("hattr", 0, IF wt /\ ks[j] \notin Protected THEN 1 ELSE 0, 2, 0, ks[j])]
     IN IF wt
        THEN /\ evs' = [evs EXCEPT ![id].waiting = FALSE]
             /\ Emit(at \o <<Line("deliver", id, -1, 0, 0, "")>>)
        ELSE /\ Emit(at) /\ UNCHANGED evs
  /\ pend' = Tail(pend)
  /\ UNCHANGED <<fw, chan, rpos, bstart, ncuts, nhost, alive, hist>>

(* a call packet whose channels cannot be hashed *)
HChan ==
  /\ IsPkt("hchan")
  /\ IF "chanunhash" \in Dev
     THEN /\ alive' = FALSE /\ Emit(<<Line("escape", Item.side, 0, 0, 0, "")>>)
     ELSE /\ Emit(<<>>) /\ UNCHANGED alive
  /\ pend' = Tail(pend)
  /\ UNCHANGED <<fw, chan, rpos, bstart, evs, ncuts, nhost, hist>>

(* after a read that contained hostile bytes the harness fires a probe event *)
Probe ==
  /\ pend # <<>> /\ Item.op = "probe"
  /\ Emit(<<Line("probe", Item.side, 1, 0, 0, "")>>)
  /\ pend' = Tail(pend)
  /\ UNCHANGED <<fw, chan, rpos, bstart, evs, ncuts, nhost, alive, hist>>

Next == \/ \E size \in Sizes, pay \in Pays, fwk \in FwKinds, nr \in NoResult : Send(size, pay, fwk, nr)
        \/ \E d \in {0, 1}, k \in 1..BufW : Read(d, k)
        \/ \E id \in 1..MaxSends, v \in Values, err \in BOOLEAN : Reply(id, v, err)
        \/ \E cls \in HostileClasses : Hostile(cls, "")
        \/ \E key \in MetaKeys : Hostile("meta", key)
        \/ \E key \in MetaKeys : Hostile("vmeta", key)
        \/ Quiet
        \/ Execute \/ Reject \/ Deliver \/ HDispatch \/ HValue \/ HChan \/ Probe

Spec == Init /\ [][Next]_vars

-----------------------------------------------------------------------------
TypeOK == /\ bad \in STRING /\ alive \in BOOLEAN /\ ncuts \in 0..MaxCuts /\ nhost \in 0..MaxHostile
          /\ \A d \in {0, 1} : bstart[d] <= rpos[d] /\ rpos[d] <= SLen(chan[d])

(* C19 as the monitor's verdict on every behaviour of the model *)
Conforms == bad = ""

(* C19 stated directly on the model's state *)
ExecOnce   == \A i \in 1..Len(evs) : evs[i].ex <= 1
Firewalled == \A i \in 1..Len(evs) : (~evs[i].sok \/ ~evs[i].rok) => evs[i].ex = 0
LoopAlive  == alive
QuietDone  == LastKind = "Q" =>
                \A i \in 1..Len(evs) : (evs[i].sok /\ evs[i].rok) => (evs[i].ex = 1 /\ (~P.h1 => ~evs[i].waiting))
(* a send nobody waits for never has a waiting handler *)
NoWaiter   == \A i \in 1..Len(evs) : P.ev[i].nr => ~evs[i].waiting

View == <<fw, chan, rpos, bstart, evs, pend, ncuts, nhost, alive, P, bad, Len(hist), LastKind>>
=============================================================================
