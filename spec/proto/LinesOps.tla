----------------------------- MODULE LinesOps -----------------------------
(* C18, line protocol part - the property, as a monitor over trace lines.

   Bytes are small integers (tokens):
     1 = CR   2 = LF   3 = an ASCII byte ('a')
     4, 5 = the two bytes of a 2-byte UTF-8 character (0xC3 0xA9)
     6 = SP   7 = ':'   8 = NUL           (used by the IRC part)
     100 + b = any other byte b
   A byte string is a sequence of tokens.

   Lines(b)  = the lines contained in the byte string b: b is cut after every
               LF; the LF, and one CR directly in front of it, are the
               terminator and do not belong to the line.
   TailOf(b) = the unterminated rest after the last LF.
   Both are defined on the WHOLE stream a socket has delivered; that the
   incremental algorithm of the code (and of Lines.tla) agrees with them for
   every segmentation is exactly what C18 claims.

   A trace line is a record [k, s, d]:
     k="read"  socket s delivered the segment d (one `read` event)
     k="line"  a `line` event for socket s with payload d was observed
     k="tail"  every read recorded so far has been dispatched and all events
               it caused have been handled; d is the partial line now held
               for socket s (Line.buffer / getBuffer(s))
     k="end"   end of the run (all sockets settled)
   Client mode is the case of one socket (s = 1).                            *)
EXTENDS Integers, Sequences

CR == 1
LF == 2

RECURSIVE SplitFrom(_, _, _, _)
SplitFrom(b, i, start, acc) ==   \* i: next index to inspect; start: first index of the current piece
  IF i > Len(b) THEN <<acc, SubSeq(b, start, Len(b))>>
  ELSE IF b[i] = LF
       THEN LET e == IF i - 1 >= start /\ b[i - 1] = CR THEN i - 2 ELSE i - 1
            IN SplitFrom(b, i + 1, i + 1, Append(acc, SubSeq(b, start, e)))
       ELSE SplitFrom(b, i + 1, start, acc)

Split(b)  == SplitFrom(b, 1, 1, <<>>)      \* <<lines, tail>>
Lines(b)  == Split(b)[1]
TailOf(b) == Split(b)[2]

Line(k, s, d) == [k |-> k, s |-> s, d |-> d]

(* monitor state for n sockets.  inp[s]: every byte socket s delivered so far;
   exp[s] / held[s]: Lines / TailOf of it (recomputed from the whole stream at
   each read); nout[s]: lines observed for s.  all / allexp / allheld /
   allout: the same for the arrival-order merge of all sockets - used only to
   *name* a failure (a line that is wrong for its socket but right for the
   merged stream is a leak between sockets).                                *)
P0(n) == [inp |-> [s \in 1..n |-> <<>>], exp |-> [s \in 1..n |-> <<>>],
          held |-> [s \in 1..n |-> <<>>], nout |-> [s \in 1..n |-> 0],
          all |-> <<>>, allexp |-> <<>>, allheld |-> <<>>, allout |-> 0]

Known(P, s) == s \in DOMAIN P.inp

Fail(P, ln) ==
  CASE ln.k = "line" ->
         IF ~Known(P, ln.s) THEN "C18.lines"
         ELSE LET n == P.nout[ln.s] + 1 IN
              IF n <= Len(P.exp[ln.s]) /\ P.exp[ln.s][n] = ln.d THEN ""
              ELSE IF P.all # P.inp[ln.s] /\ P.allout + 1 <= Len(P.allexp)
                      /\ P.allexp[P.allout + 1] = ln.d THEN "C18.cross_socket"
              ELSE IF n > Len(P.exp[ln.s]) THEN "C18.tail"     \* an unterminated tail (or nothing) given out as a line
              ELSE "C18.lines"
    [] ln.k = "tail" ->
         IF ~Known(P, ln.s) THEN "C18.tail"
         ELSE IF P.nout[ln.s] < Len(P.exp[ln.s]) THEN "C18.missing_line"
         ELSE IF ln.d = P.held[ln.s] THEN ""
         ELSE IF P.all # P.inp[ln.s] /\ ln.d = P.allheld THEN "C18.cross_socket"
         ELSE "C18.tail"
    [] ln.k = "end" ->
         IF \E s \in DOMAIN P.inp : P.nout[s] < Len(P.exp[s]) THEN "C18.missing_line" ELSE ""
    [] OTHER -> ""

Apply(P, ln) ==
  CASE ln.k = "read" /\ Known(P, ln.s) ->
         LET b  == P.inp[ln.s] \o ln.d
             sp == Split(b)
             a  == P.all \o ln.d
             sa == Split(a)
         IN [P EXCEPT !.inp[ln.s] = b, !.exp[ln.s] = sp[1], !.held[ln.s] = sp[2],
                      !.all = a, !.allexp = sa[1], !.allheld = sa[2]]
    [] ln.k = "line" /\ Known(P, ln.s) ->
         [P EXCEPT !.nout[ln.s] = @ + 1, !.allout = @ + 1]
    [] OTHER -> P

RECURSIVE Run(_, _, _)
Run(P, lines, badSoFar) ==
  IF lines = <<>> THEN <<P, badSoFar>>
  ELSE LET ln == Head(lines)
           f  == IF badSoFar = "" THEN Fail(P, ln) ELSE badSoFar
       IN Run(Apply(P, ln), Tail(lines), f)
=============================================================================
