SPECIFICATION Spec
CONSTANTS
  Sizes = {"s", "b"}
  Pays = {"plain", "tilde", "valkey"}
  FwKinds = {"ok"}
  FwConfigs = {"--"}
  Values = {1}
  NoResult = {FALSE}
  ErrReplies = TRUE
  HostileClasses = {}
  MetaKeys = {}
  MaxSends = 1
  MaxHostile = 0
  MaxCuts = 1
  MaxSteps = 6
  Dev = {}
INVARIANT Conforms
CHECK_DEADLOCK FALSE
