----------------------------- MODULE WsFraming -----------------------------
(* C17 - generative model of a WebSocket endpoint's framing layer
   (circuits.protocols.websocket.WebSocketCodec: _parse_messages, _on_write,
   _encode_tail, _on_close).

   It works on *layouts*: the peer first composes a stream of frames
   (Send: fragmented messages, control frames interleaved inside them, frames
   behind a close frame), then the environment cuts that stream into reads
   (Read(t): the next read ends at stream offset t - any offset inside the
   2-byte header, the extended length, the masking key, next to the payload
   boundaries), and the application writes messages and closes (AppWrite,
   AppClose) in between.  The system part is shaped like the code: one
   decoder pass per read over the buffered bytes (operator Dec: wait for the
   complete frame, accumulate fragments, answer pings, stop at close), one
   frame per application write.  Every step emits the trace lines the
   instrumented real codec emits; the C17 monitor of WsFramingOps judges them
   (invariant Conforms).

   Defects = {} is the intended algorithm.  The pinned decoder deviates in
   three places, each a generator of counterexample histories (never an
   oracle):
     "hdr"        indexes header bytes before they have arrived: a read ending
                  after the first header byte or inside the extended length
                  raises IndexError, the bytes are lost
     "pong"       prepends the fragments accumulated so far to the payload of
                  a ping that arrives inside a fragmented message
     "pingclosed" returns None (TypeError in the caller) for a ping that
                  arrives after the endpoint sent close                      *)
EXTENDS WsFramingOps, Naturals, TLC

CONSTANTS Roles,       \* subset of {"server", "client"}
          MaxFrames,   \* frames the peer sends
          DataLens,    \* payload lengths of data frames
          PingLens,    \* payload lengths of ping frames
          CloseLens,   \* payload lengths of the peer's close frame
          MaxReads,    \* reads; the last allowed one goes to the end of the stream
          MaxWrites,   \* application writes
          WriteLens,   \* payload lengths of application writes
          MaxCloses,   \* application close requests (0 or 1)
          Defects      \* subset of {"hdr", "pong", "pingclosed"}

VARIABLES role,      \* role of the endpoint under test
          frames,    \* the peer's stream (layout)
          open,      \* Send: a fragmented message is open
          nmsg, nping, \* Send: ids handed out
          pos,       \* bytes handed to the endpoint so far
          cur,       \* first frame not yet decoded        (start of _buffer)
          plen,      \* bytes of accumulated fragments     (_pending_payload)
          ptype,     \* type of the open message, "" none  (_pending_type)
          closeRcvd, \* (_close_received)
          closeSent, \* (_close_sent)
          nreads, nwrites, ncloses,
          dead,      \* a defect variant crashed: the decoder is desynchronised
          P, bad,    \* monitor state, first failed clause
          hist,      \* environment history of the run phase: what a replay drives
          out        \* every line emitted so far

vars == <<role, frames, open, nmsg, nping, pos, cur, plen, ptype, closeRcvd, closeSent,
          nreads, nwrites, ncloses, dead, P, bad, hist, out>>

C == [role |-> role, frames |-> frames]
Emit(lines) == LET r == Run(C, P, lines, bad) IN P' = r[1] /\ bad' = r[2] /\ out' = out \o lines

Init == /\ role \in Roles /\ frames = <<>> /\ open = FALSE /\ nmsg = 0 /\ nping = 0
        /\ pos = 0 /\ cur = 1 /\ plen = 0 /\ ptype = "" /\ closeRcvd = FALSE /\ closeSent = FALSE
        /\ nreads = 0 /\ nwrites = 0 /\ ncloses = 0 /\ dead = FALSE
        /\ P = P0 /\ bad = "" /\ hist = <<>> /\ out = <<>>

-----------------------------------------------------------------------------
(* the conforming peer composes its stream (RFC 6455 5.4, 5.5): a message is
   text|bin followed by cont frames, the last one with FIN; control frames
   have FIN and at most 125 bytes and may stand between the fragments; client
   frames are masked, server frames are not; lengths are minimally encoded *)
Frame(fin, op, n, id) == [fin |-> fin, op |-> op, masked |-> (role = "server"),
                          len |-> n, enc |-> MinEnc(n), id |-> id]

Send(fin, op, n) ==
  /\ hist = <<>> /\ Len(frames) < MaxFrames
  /\ CASE op \in {"text", "bin"} ->
            /\ ~open /\ n \in DataLens
            /\ frames' = Append(frames, Frame(fin, op, n, nmsg + 1))
            /\ nmsg' = nmsg + 1 /\ open' = ~fin /\ UNCHANGED nping
       [] op = "cont" ->
            /\ open /\ n \in DataLens
            /\ frames' = Append(frames, Frame(fin, op, n, nmsg))
            /\ open' = ~fin /\ UNCHANGED <<nmsg, nping>>
       [] op = "ping" ->
            /\ fin /\ n \in PingLens
            /\ frames' = Append(frames, Frame(TRUE, op, n, nping + 1))
            /\ nping' = nping + 1 /\ UNCHANGED <<nmsg, open>>
       [] op = "pong" ->
            /\ fin /\ n = 0
            /\ frames' = Append(frames, Frame(TRUE, op, 0, 0))
            /\ UNCHANGED <<nmsg, nping, open>>
       [] op = "close" ->
            /\ fin /\ n \in CloseLens /\ CloseIdx(frames) > Len(frames)
            /\ frames' = Append(frames, Frame(TRUE, op, n, 0))
            /\ UNCHANGED <<nmsg, nping, open>>
  /\ UNCHANGED <<role, pos, cur, plen, ptype, closeRcvd, closeSent, nreads, nwrites, ncloses,
                 dead, P, bad, hist, out>>

-----------------------------------------------------------------------------
(* read boundaries worth distinguishing: every offset inside a header (2-byte
   header, extended length, masking key) up to its end, one byte into the
   payload, one byte before the end of the frame, the end of the frame *)
FrameTargets(j) ==
  LET s == StartOf(frames, j)
      h == HdrLen(frames[j])
      e == EndOf(frames, j)
  IN {t \in ({s + d : d \in 1..h} \cup {s + h + 1, e - 1, e}) : t > s /\ t <= e}
Targets == UNION {FrameTargets(j) : j \in Idx(frames)}

(* one pass of _parse_messages over the buffered bytes [StartOf(cur), t) *)
RECURSIVE Dec(_, _)
Dec(D, t) ==
  IF D.stop \/ D.cur > Len(frames) THEN D
  ELSE
    LET f     == frames[D.cur]
        avail == t - StartOf(frames, D.cur)
    IN
    IF avail = 0 THEN D
    ELSE IF "hdr" \in Defects /\ avail < 2 + ExtLen(f)
      THEN [D EXCEPT !.crash = "IndexError", !.stop = TRUE]
    ELSE IF avail < FrameLen(f) THEN [D EXCEPT !.stop = TRUE]     \* keep the bytes, retry after the next read
    ELSE
      LET nxt == [D EXCEPT !.cur = @ + 1] IN
      CASE IsData(f) ->
             IF f.fin
             THEN Dec([nxt EXCEPT !.plen = 0, !.ptype = "",
                                  !.msgs = Append(@, LDeliver(f.id, D.plen + f.len,
                                                              IF f.op = "cont" THEN D.ptype ELSE f.op))], t)
             ELSE Dec([nxt EXCEPT !.plen = @ + f.len,
                                  !.ptype = IF f.op = "cont" THEN @ ELSE f.op], t)
        [] f.op = "ping" ->
             IF closeSent
             THEN IF "pingclosed" \in Defects
                  THEN [nxt EXCEPT !.crash = "TypeError", !.stop = TRUE]
                  ELSE Dec(nxt, t)                                \* not answered any more
             ELSE IF "pong" \in Defects /\ D.plen > 0
                  THEN Dec([nxt EXCEPT !.pre = Append(@, LSent("pong", -1, D.plen + f.len, role = "client",
                                                                MinEnc(D.plen + f.len), 1))], t)
                  ELSE Dec([nxt EXCEPT !.pre = Append(@, LSent("pong", f.id, f.len, role = "client",
                                                                MinEnc(f.len), 1))], t)
        [] f.op = "pong" -> Dec(nxt, t)
        [] f.op = "close" ->
             [nxt EXCEPT !.closeRcvd = TRUE, !.stop = TRUE, !.pre = Append(@, L0("wsclose"))]

Read(t) ==
  /\ frames # <<>> /\ ~dead /\ nreads < MaxReads
  /\ t > pos                         \* t ranges over Targets (see Next)
  /\ IF nreads + 1 < MaxReads THEN TRUE ELSE t = Total(frames)
  /\ LET D0 == [cur |-> cur, plen |-> plen, ptype |-> ptype, closeRcvd |-> FALSE, stop |-> closeRcvd,
                crash |-> "", pre |-> <<>>, msgs |-> <<>>]
         D  == Dec(D0, t)
         (* reaction of _on_close to the close event fired for the peer's close frame *)
         post == IF D.closeRcvd
                 THEN (IF closeSent THEN <<>> ELSE <<LSent("close", 0, 0, FALSE, 7, 1)>>)
                      \o <<L0("sockclose")>>
                 ELSE <<>>
     IN /\ cur' = D.cur /\ plen' = D.plen /\ ptype' = D.ptype
        /\ closeRcvd' = (closeRcvd \/ D.closeRcvd)
        /\ closeSent' = (closeSent \/ D.closeRcvd)
        /\ dead' = (D.crash # "")
        /\ Emit(<<LRead(t)>> \o D.pre
                \o (IF D.crash # "" THEN <<LCrash(D.crash)>> ELSE D.msgs)   \* the decoded messages die with the exception
                \o post \o <<LQuiet(t)>>)
  /\ pos' = t /\ nreads' = nreads + 1
  /\ hist' = Append(hist, <<"R", "", t>>)
  /\ UNCHANGED <<role, frames, open, nmsg, nping, nwrites, ncloses>>

(* _on_write: one frame, FIN set, text for str else binary, masked iff client *)
AppWrite(typ, n) ==
  /\ frames # <<>> /\ ~dead /\ nwrites < MaxWrites
  /\ Emit(<<LAppWrite(nwrites + 1, n, typ)>>
          \o (IF closeSent THEN <<>> ELSE <<LSent(typ, nwrites + 1, n, role = "client", MinEnc(n), 1)>>)
          \o <<LQuiet(pos)>>)
  /\ nwrites' = nwrites + 1
  /\ hist' = Append(hist, <<"W", typ, n>>)
  /\ UNCHANGED <<role, frames, open, nmsg, nping, pos, cur, plen, ptype, closeRcvd, closeSent,
                 nreads, ncloses, dead>>

(* _on_close for a close event fired by the application *)
AppClose ==
  /\ frames # <<>> /\ ~dead /\ ncloses < MaxCloses
  /\ Emit(<<L0("appclose"), L0("wsclose")>>
          \o (IF closeSent THEN <<>> ELSE <<LSent("close", 0, 0, FALSE, 7, 1)>>)
          \o (IF closeRcvd THEN <<L0("sockclose")>> ELSE <<>>)
          \o <<LQuiet(pos)>>)
  /\ closeSent' = TRUE /\ ncloses' = ncloses + 1
  /\ hist' = Append(hist, <<"C", "", 0>>)
  /\ UNCHANGED <<role, frames, open, nmsg, nping, pos, cur, plen, ptype, closeRcvd,
                 nreads, nwrites, dead>>

Next == \/ \E fin \in BOOLEAN, op \in {"text", "bin", "cont", "ping", "pong", "close"},
              n \in DataLens \cup PingLens \cup CloseLens \cup {0} : Send(fin, op, n)
        \/ \E t \in Targets : Read(t)
        \/ \E typ \in {"text", "bin"}, n \in WriteLens : AppWrite(typ, n)
        \/ AppClose

Spec == Init /\ [][Next]_vars

-----------------------------------------------------------------------------
TypeOK == /\ role \in Roles /\ open \in BOOLEAN /\ dead \in BOOLEAN
          /\ closeRcvd \in BOOLEAN /\ closeSent \in BOOLEAN
          /\ pos \in 0..Total(frames) /\ cur \in 1..(Len(frames) + 1)
          /\ bad \in STRING

(* C17 as the monitor's verdict on every behaviour of the model *)
Conforms == bad = ""

(* C17 stated directly on the model's state, independent of the monitor's
   clauses: exactly the messages complete at pos (and not behind the close
   frame) have been delivered, exactly the pings complete at pos have been
   answered unless the endpoint had closed, the decoder stands at the first
   incomplete frame, and what it has accumulated is the open message's
   fragments - control frames in between left no trace *)
DeliveredExactly == ~dead => P.ndel = Deliverable(frames, pos)
PongsExactly     == (~dead /\ ~closeSent) => P.npong = Answerable(frames, pos)
RECURSIVE OpenLen(_)
OpenLen(j) == IF j = 0 THEN 0
              ELSE IF IsData(frames[j])
                   THEN IF frames[j].fin THEN 0
                        ELSE IF frames[j].op = "cont" THEN OpenLen(j - 1) + frames[j].len
                        ELSE frames[j].len
                   ELSE OpenLen(j - 1)
DecoderPosition  == (~dead /\ ~closeRcvd) =>
                      /\ StartOf(frames, cur) <= pos
                      /\ cur <= Len(frames) => EndOf(frames, cur) > pos
                      /\ plen = OpenLen(cur - 1)
NothingAfterClose == closeRcvd => /\ cur = CloseIdx(frames) + 1
                                  /\ closeSent

Unbounded == 99    \* MaxReads = Unbounded: the number of reads so far is irrelevant
View == <<role, frames, open, nmsg, nping, pos, cur, plen, ptype, closeRcvd, closeSent,
          IF MaxReads >= Unbounded THEN 0 ELSE nreads, nwrites, ncloses, dead, P, bad>>
=============================================================================
