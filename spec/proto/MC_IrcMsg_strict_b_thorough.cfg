SPECIFICATION Spec
CONSTANTS
  Kinds = {"cmd"}
  HeadTokens = {1, 2, 3, 6, 7, 8}
  MaxPfxLen = 0
  MaxCmdLen = 0
  CrossHeads = TRUE
  ArgTokens = {1, 2, 3, 4, 5, 6, 7, 8}
  MaxArgs = 3
  MaxLen = 2
  CutLen = 6
  FollowUp = TRUE
  Variants = {"strict"}
INVARIANT TypeOK
INVARIANT Conforms
INVARIANT SentIsOneLine
INVARIANT SentRoundTrips
CHECK_DEADLOCK FALSE
