SPECIFICATION Spec
CONSTANTS
  Sizes = {"s", "b"}
  Pays = {"plain"}
  FwKinds = {"ok"}
  FwConfigs = {"--"}
  Values = {1, 2}
  NoResult = {FALSE}
  ErrReplies = FALSE
  HostileClasses = {}
  MetaKeys = {}
  MaxSends = 2
  MaxHostile = 0
  MaxCuts = 2
  MaxSteps = 9
  Dev = {"discard"}
INVARIANT TypeOK
INVARIANT Conforms
INVARIANT ExecOnce
INVARIANT Firewalled
INVARIANT LoopAlive
INVARIANT QuietDone
VIEW View
CHECK_DEADLOCK FALSE
