--------------------------- MODULE WsFramingOps ---------------------------
(* C17 - the property, as a monitor over trace lines.

   The monitor is parameterised by the *layout* C of the byte stream a
   conforming peer sends to the endpoint under test:
     C.role   "server" | "client"   role of the endpoint under test
     C.frames sequence of frames  [fin, op, masked, len, enc, id]
                op   in {"cont","text","bin","close","ping","pong"}
                len  payload length in bytes, enc in {7,16,64} its encoding
                id   data frames: number of the message (1,2,..) the frame
                     belongs to; ping: number of the ping (1,2,..); else 0
   Header length, frame boundaries, "message m is complete at offset p" are
   all *derived* here from the layout (RFC 6455 section 5.2).

   A trace line is the flat record [k, a, b, s, m, e, f]:
     k="read"     the next read hands the endpoint the stream bytes up to offset a
     k="deliver"  the endpoint delivered a message to the application:
                  a = number of the stream message whose payload it equals
                  (-1: equals none), b = its length in bytes, s = "text"|"bin"
     k="sent"     the endpoint wrote a frame/message to the socket side, as read
                  back by the independent RFC 6455 decoder of the harness:
                  s = "text"|"bin" (a = number of the application write whose
                  payload it equals, -1: none), "pong" (a = number of the ping
                  whose payload it equals, -1: none), "close", "ping", or "bad"
                  (bytes that are not a sequence of well-formed frames);
                  b = payload length, m = masked, f = number of frames of the
                  message, e = length encoding of the frame (f = 1) or 0 (f > 1,
                  every fragment minimally encoded) or -1 (some fragment not)
     k="appwrite" the application writes message number a (1,2,..) of b bytes,
                  s = "text"|"bin"
     k="appclose" the application asks for the connection to be closed
     k="wsclose"  a close event on the application channel      (not judged)
     k="sockclose" a close event towards the transport          (not judged)
     k="crash"    an exception escaped a handler (an `exception` event was
                  fired) or the call itself; s = exception type
     k="quiet"    the event queue is empty: nothing more will happen unless
                  more bytes arrive / the application acts; a = offset read so far
   Fail(C, P, ln) names the clause of C17 the line violates ("" if none),
   Apply(C, P, ln) is the next monitor state.  Where the statement is silent
   every outcome is allowed: what is delivered after the endpoint itself sent
   close, pings arriving after that, the close frame's own encoding, writes
   issued after a close frame arrived.                                       *)
EXTENDS Integers, Sequences, FiniteSets

Line(k, a, b, s, m, e, f) == [k |-> k, a |-> a, b |-> b, s |-> s, m |-> m, e |-> e, f |-> f]
L0(k)        == Line(k, 0, 0, "", FALSE, 0, 0)
LRead(t)     == Line("read", t, 0, "", FALSE, 0, 0)
LQuiet(t)    == Line("quiet", t, 0, "", FALSE, 0, 0)
LDeliver(id, n, typ) == Line("deliver", id, n, typ, FALSE, 0, 0)
LSent(op, id, n, masked, enc, nf) == Line("sent", id, n, op, masked, enc, nf)
LAppWrite(id, n, typ) == Line("appwrite", id, n, typ, FALSE, 0, 0)
LCrash(exc)  == Line("crash", 0, 0, exc, FALSE, 0, 0)

-----------------------------------------------------------------------------
(* RFC 6455 5.2: layout arithmetic *)
DataOps == {"text", "bin", "cont"}
ExtLen(f)   == IF f.enc = 16 THEN 2 ELSE IF f.enc = 64 THEN 8 ELSE 0
HdrLen(f)   == 2 + ExtLen(f) + (IF f.masked THEN 4 ELSE 0)
FrameLen(f) == HdrLen(f) + f.len
MinEnc(n)   == IF n <= 125 THEN 7 ELSE IF n <= 65535 THEN 16 ELSE 64

RECURSIVE EndOf(_, _)
EndOf(fr, j)   == IF j = 0 THEN 0 ELSE EndOf(fr, j - 1) + FrameLen(fr[j])
StartOf(fr, j) == EndOf(fr, j - 1)
Total(fr)      == EndOf(fr, Len(fr))
Idx(fr)        == 1..Len(fr)

IsData(f) == f.op \in DataOps
(* index of the first close frame; Len+1 if the peer never closes *)
CloseIdx(fr) ==
  IF \E j \in Idx(fr) : fr[j].op = "close"
  THEN CHOOSE j \in Idx(fr) : fr[j].op = "close" /\ \A i \in 1..(j - 1) : fr[i].op # "close"
  ELSE Len(fr) + 1
CloseArrived(fr, p) == CloseIdx(fr) <= Len(fr) /\ EndOf(fr, CloseIdx(fr)) <= p

NumMsgs(fr) == Cardinality({fr[j].id : j \in {i \in Idx(fr) : IsData(fr[i])}})
(* frame carrying FIN of message m, 0 if the stream does not complete it *)
FinalIdx(fr, m) ==
  IF \E j \in Idx(fr) : IsData(fr[j]) /\ fr[j].id = m /\ fr[j].fin
  THEN CHOOSE j \in Idx(fr) : IsData(fr[j]) /\ fr[j].id = m /\ fr[j].fin
  ELSE 0
MsgType(fr, m) ==
  LET j == CHOOSE i \in Idx(fr) : IsData(fr[i]) /\ fr[i].id = m /\ fr[i].op # "cont" IN fr[j].op
RECURSIVE MsgLenUpTo(_, _, _)
MsgLenUpTo(fr, m, j) ==
  IF j = 0 THEN 0
  ELSE MsgLenUpTo(fr, m, j - 1) + (IF IsData(fr[j]) /\ fr[j].id = m THEN fr[j].len ELSE 0)
MsgLen(fr, m) == MsgLenUpTo(fr, m, Len(fr))

(* message m is complete at offset p and not behind the peer's close frame *)
Complete(fr, m, p) == LET j == FinalIdx(fr, m) IN j # 0 /\ j < CloseIdx(fr) /\ EndOf(fr, j) <= p
Deliverable(fr, p) == Cardinality({m \in 1..NumMsgs(fr) : Complete(fr, m, p)})
PingFrames(fr)     == {j \in Idx(fr) : fr[j].op = "ping"}
PingIdx(fr, q)     == IF \E j \in PingFrames(fr) : fr[j].id = q
                      THEN CHOOSE j \in PingFrames(fr) : fr[j].id = q ELSE 0
Answerable(fr, p)  == Cardinality({j \in PingFrames(fr) : j < CloseIdx(fr) /\ EndOf(fr, j) <= p})

-----------------------------------------------------------------------------
(* monitor state:
     pos        stream offset handed over so far
     ndel       messages 1..ndel have been delivered
     kmust      messages 1..kmust must have been delivered at quiescence
     npong      pings 1..npong have been answered
     pmust      pings 1..pmust must have been answered at quiescence
     closeSent  the endpoint has sent a close frame
     writes     application writes so far: <<[typ, len]>>
     nws        application writes 1..nws have reached the socket side
     wmust      application writes 1..wmust must have reached it at quiescence *)
P0 == [pos |-> 0, ndel |-> 0, kmust |-> 0, npong |-> 0, pmust |-> 0,
       closeSent |-> FALSE, writes |-> <<>>, nws |-> 0, wmust |-> 0]

FailDeliver(C, P, ln) ==
  LET fr == C.frames
      n  == P.ndel + 1
  IN IF ln.a = -1 THEN "C17.payload"              \* equals no message of the stream: corrupted, truncated, merged
     ELSE IF ln.a <= P.ndel THEN "C17.dup"        \* delivered before
     ELSE IF ln.a > n THEN "C17.order"            \* message n skipped
     ELSE LET j == FinalIdx(fr, n) IN
          IF j # 0 /\ j > CloseIdx(fr) THEN "C17.after_close"
          ELSE IF j = 0 \/ EndOf(fr, j) > P.pos THEN "C17.early"
          ELSE IF ln.s # MsgType(fr, n) THEN "C17.type"
          ELSE IF ln.b # MsgLen(fr, n) THEN "C17.payload"
          ELSE ""

FailSent(C, P, ln) ==
  LET fr == C.frames
      encodingBad == IF ln.m # (C.role = "client") THEN "C17.mask"
                     ELSE IF ln.f = 1 /\ ln.e # MinEnc(ln.b) THEN "C17.length_encoding"
                     ELSE IF ln.f # 1 /\ ln.e # 0 THEN "C17.length_encoding"
                     ELSE ""
  IN CASE ln.s = "pong" ->
            IF ln.a = -1 THEN "C17.pong_payload"
            ELSE IF ln.a <= P.npong THEN "C17.pong_dup"
            ELSE IF ln.a > P.npong + 1 THEN "C17.pong_order"
            ELSE LET j == PingIdx(fr, ln.a) IN
                 IF j = 0 \/ EndOf(fr, j) > P.pos THEN "C17.pong_early"
                 ELSE IF ln.b # fr[j].len THEN "C17.pong_payload"
                 ELSE IF ln.f # 1 THEN "C17.length_encoding"   \* control frames are never fragmented
                 ELSE encodingBad
       [] ln.s \in {"text", "bin"} ->
            IF P.closeSent THEN "C17.after_close"
            ELSE IF ln.a = -1 THEN "C17.sent_payload"
            ELSE IF ln.a <= P.nws THEN "C17.sent_dup"
            ELSE IF ln.a > P.nws + 1 \/ ln.a > Len(P.writes) THEN "C17.sent_order"
            ELSE IF ln.s # P.writes[ln.a].typ THEN "C17.sent_type"
            ELSE IF ln.b # P.writes[ln.a].len THEN "C17.sent_payload"
            ELSE encodingBad
       [] ln.s = "bad" -> "C17.undecodable"
       [] OTHER -> ""                              \* close, ping: not constrained by the statement

Fail(C, P, ln) ==
  CASE ln.k = "deliver" -> FailDeliver(C, P, ln)
    [] ln.k = "sent"    -> FailSent(C, P, ln)
    [] ln.k = "crash"   -> "C17.crash"
    [] ln.k = "quiet"   ->
         IF P.ndel < P.kmust THEN "C17.lost"
         ELSE IF P.npong < P.pmust THEN "C17.pong_missing"
         ELSE IF P.nws < P.wmust THEN "C17.write_lost"
         ELSE ""
    [] OTHER -> ""

Max(a, b) == IF a > b THEN a ELSE b

Apply(C, P, ln) ==
  LET fr == C.frames IN
  CASE ln.k = "read" ->
         [P EXCEPT !.pos = ln.a,
                   !.kmust = IF P.closeSent THEN @ ELSE Max(@, Deliverable(fr, ln.a)),
                   !.pmust = IF P.closeSent THEN @ ELSE Max(@, Answerable(fr, ln.a))]
    [] ln.k = "deliver" -> [P EXCEPT !.ndel = Max(@, ln.a)]
    [] ln.k = "sent" ->
         IF ln.s = "pong" THEN [P EXCEPT !.npong = Max(@, ln.a)]
         ELSE IF ln.s \in {"text", "bin"} THEN [P EXCEPT !.nws = Max(@, ln.a)]
         ELSE IF ln.s = "close" THEN [P EXCEPT !.closeSent = TRUE]
         ELSE P
    [] ln.k = "appwrite" ->
         LET w == Append(P.writes, [typ |-> ln.s, len |-> ln.b]) IN
         [P EXCEPT !.writes = w,
                   !.wmust = IF P.closeSent \/ CloseArrived(fr, P.pos) THEN @ ELSE Len(w)]
    [] OTHER -> P

(* Fold a sequence of lines through the monitor: <<P', firstBad>> *)
RECURSIVE Run(_, _, _, _)
Run(C, P, lines, badSoFar) ==
  IF lines = <<>> THEN <<P, badSoFar>>
  ELSE LET ln == Head(lines)
           f  == IF badSoFar = "" THEN Fail(C, P, ln) ELSE badSoFar
       IN Run(C, Apply(C, P, ln), Tail(lines), f)
=============================================================================
