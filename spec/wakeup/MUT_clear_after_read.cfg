SPECIFICATION SpecIdle
CONSTANTS
  Firers = {"f1", "f2"}
  Variants = {"fallback"}
  Timers = {FALSE}
  Quotas <- UniformQuotas
  NFiresSet = {1}
  MaxFires = 1
  Mutant = "clear_after_read"
  WithStop = TRUE
INVARIANT TypeOK
INVARIANT NoStaleClash
INVARIANT NoLostWakeup
INVARIANT ExactlyOnce
INVARIANT PerThreadOrder
INVARIANT OnlyFired
INVARIANT NothingLost
CHECK_DEADLOCK TRUE
