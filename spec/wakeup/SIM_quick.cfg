SPECIFICATION SpecIdle
CONSTANTS
  Firers = {"f1", "f2"}
  Variants = {"fallback", "poller"}
  Timers = {FALSE, TRUE}
  Quotas <- UniformQuotas
  NFiresSet = {1}
  MaxFires = 1
  Mutant = "none"
  WithStop = TRUE
INVARIANT NoLostWakeup
INVARIANT PerThreadOrder
CHECK_DEADLOCK TRUE
