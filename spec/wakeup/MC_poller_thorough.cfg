SPECIFICATION SpecIdle
CONSTANTS
  Firers = {"f1", "f2"}
  NFires = 2
  Variant = "poller"
  Mutant = "none"
  Timer = TRUE
  WithStop = TRUE
INVARIANT TypeOK
INVARIANT NoStaleClash
INVARIANT NoLostWakeup
INVARIANT ExactlyOnce
INVARIANT PerThreadOrder
INVARIANT OnlyFired
INVARIANT NothingLost
PROPERTY Delivery
PROPERTY LoopEnds
CHECK_DEADLOCK TRUE
