SPECIFICATION SpecIdle
CONSTANTS
  Firers = {"f1", "f2"}
  NFires = 2
  Variant = "fallback"
  Mutant = "none"
  Timer = FALSE
  WithStop = TRUE
INVARIANT NoLostWakeup
INVARIANT PerThreadOrder
CHECK_DEADLOCK TRUE
