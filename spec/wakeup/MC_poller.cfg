SPECIFICATION SpecIdle
CONSTANTS
  Firers = {"f1", "f2"}
  NFires = 1
  Variant = "poller"
  Mutant = "none"
  Timer = FALSE
  WithStop = TRUE
INVARIANT TypeOK
INVARIANT NoStaleClash
INVARIANT NoLostWakeup
INVARIANT ExactlyOnce
INVARIANT PerThreadOrder
INVARIANT OnlyFired
INVARIANT NothingLost
CHECK_DEADLOCK TRUE
