SPECIFICATION SpecIdle
CONSTANTS
  Firers = {"f1"}
  Variants = {"fallback"}
  Timers = {TRUE}
  Quotas <- UniformQuotas
  NFiresSet = {3}
  MaxFires = 3
  Mutant = "counter_reset"
  WithStop = TRUE
INVARIANT TypeOK
INVARIANT NoStaleClash
INVARIANT NoLostWakeup
INVARIANT ExactlyOnce
INVARIANT PerThreadOrder
INVARIANT OnlyFired
INVARIANT NothingLost
CHECK_DEADLOCK TRUE
