---------------------------- MODULE WakeupTrace ----------------------------
(* C03 - trace specification at the level of events: judges what the
   deterministic scheduler (harness/sched.py) recorded while the REAL Manager
   ran on real threads.  One trace = one scheduled run; a line is

     [k |-> "fire",  t |-> thread, n |-> seq]   t's n-th event was appended to the queue
     [k |-> "ret",   t, n]                      t's n-th fire() has returned
     [k |-> "disp",  t, n]                      the loop begins to dispatch that event
     [k |-> "stuck", t |-> "loop", n |-> number of queued events whose fire() has returned,
                     w |-> "untimed" | "timed"] the scheduler found that no thread can run
                                                while the loop sits in its idle wait (a timed
                                                wait is reported only if nothing but its
                                                timeout could end it)
     [k |-> "end"]                              run() has returned, every thread is done

   (same keys on every line: k, t, n, w).  The verdict is total: the first
   failing clause is kept in `bad`, consumption goes on.

   Clauses (the property as stated in properties.jsonl, nothing more):
     C03.lost_wakeup  a "stuck" line with n > 0
     C03.duplicate    an event dispatched twice
     C03.order        a thread's events dispatched out of firing order
     C03.lost_event   at "end", an event whose fire() returned was never dispatched *)
EXTENDS Integers, Sequences, FiniteSets, Json, IOUtils, TLC

Traces == JsonDeserialize(IOEnv.TRACE_FILE)

VARIABLES tid, l, P, bad, badline
vars == <<tid, l, P, bad, badline>>

(* monitor state: events whose fire() returned, events dispatched, highest
   sequence number dispatched per thread *)
P0 == [ret |-> {}, disp |-> {}, last |-> <<>>]

Last(Q, t) == IF \E i \in 1..Len(Q.last) : Q.last[i][1] = t
              THEN (CHOOSE i \in 1..Len(Q.last) : Q.last[i][1] = t)
              ELSE 0
LastN(Q, t) == IF Last(Q, t) = 0 THEN 0 ELSE Q.last[Last(Q, t)][2]

Fail(Q, ln) ==
  IF ln.k = "disp" THEN
       IF <<ln.t, ln.n>> \in Q.disp THEN "C03.duplicate"
       ELSE IF ln.n < LastN(Q, ln.t) THEN "C03.order"
       ELSE ""
  ELSE IF ln.k = "stuck" THEN (IF ln.n > 0 THEN "C03.lost_wakeup" ELSE "")
  ELSE IF ln.k = "end" THEN (IF Q.ret \subseteq Q.disp THEN "" ELSE "C03.lost_event")
  ELSE ""

Apply(Q, ln) ==
  IF ln.k = "ret" THEN [Q EXCEPT !.ret = @ \cup {<<ln.t, ln.n>>}]
  ELSE IF ln.k = "disp" THEN
       [Q EXCEPT !.disp = @ \cup {<<ln.t, ln.n>>},
                 !.last = IF Last(Q, ln.t) = 0 THEN Append(@, <<ln.t, ln.n>>)
                          ELSE [@ EXCEPT ![Last(Q, ln.t)] = <<ln.t, IF ln.n > @[2] THEN ln.n ELSE @[2]>>]]
  ELSE Q

Init == /\ tid \in 1..Len(Traces) /\ l = 1 /\ P = P0 /\ bad = "" /\ badline = 0

Next == /\ l <= Len(Traces[tid])
        /\ LET ln == Traces[tid][l]
               f  == Fail(P, ln)
           IN /\ bad' = IF bad = "" THEN f ELSE bad
              /\ badline' = IF bad = "" /\ f # "" THEN l ELSE badline
              /\ P' = Apply(P, ln)
        /\ l' = l + 1
        /\ UNCHANGED tid

Spec == Init /\ [][Next]_vars

(* reported once per trace, when its last line has been consumed *)
Report == (l = Len(Traces[tid]) + 1) => PrintT(<<"VERDICT", tid, bad, badline>>)
=============================================================================
