------------------------------- MODULE Wakeup -------------------------------
(* C03 - fire() from other threads: nothing lost or duplicated, the loop always
   wakes.

   This is the one specification of the tree that is implementation-shaped:
   what is enumerated are SCHEDULES, not inputs.  There is one label per
   shared-state access of the code (circuits/core/manager.py: tick, _fire,
   _EventQueue.append / dispatchEvents, _dispatcher; circuits/core/events.py:
   generate_events.reduce_time_left; circuits/core/helpers.py:
   FallBackGenerator._on_generate_events / resume; circuits/core/pollers.py:
   BasePoller._on_generate_events / resume, {Select,Poll,EPoll}._generate_events),
   so that a point of the real scheduler (harness/sched.py: a source line of
   those functions, or an operation of the RLock / Event / control-pipe double)
   maps to a label of this module (harness/drivers/c03.py, LABELS).

   Processes
     loop          the thread inside Manager.run()
     f \in Firers  foreign threads, each calls fire() quota[f] times
     "stop"        (WithStop) a foreign thread that calls Manager.stop() once
                   every event of the firers has been dispatched: this is how
                   the harness ends a real run

   Shared state
     lockOwner, lockDepth   Manager._lock (an RLock; generate_events.lock is the same object)
     running                Manager._running
     handling               Manager._currently_handling: None | an ordinary event |
                            a generate_events instance (its generation number)
     gen, timeLeft, geHandler
                            the generate_events instances.  Only the current and
                            the previous instance can be referenced at any time
                            (a firer that holds a stale reference holds the lock,
                            and the dispatcher needs the lock to arm the next one),
                            so two slots suffice (invariant NoStaleClash).
     pending, batch         _EventQueue._queue (deque) and _priority_queue (heap);
                            len(manager._queue) = Len(pending) + Len(batch).  An item is
                            <<thread, n, stamp>>
     ctr                    _EventQueue._counter.  append() increments the counter on one
                            line and stamps the item with the counter's CURRENT value on the
                            next; the heap pops the smallest stamp first (priorities are
                            equal).  The loop's own fire() appends without the lock, so the
                            stamp of its generate_events and the stamp of a foreign event can
                            be equal: the heap then pops the two in either order (D_pop
                            chooses).  Only the order of stamps matters, so an increment that
                            finds the queue empty restarts at 1 in one step (this keeps the
                            state space finite; the broken variant "counter_reset" does the
                            same in TWO steps - check, then reset - and is not normalised).
     flag                   fallback: FallBackGenerator._continue (0/1);
                            poller: number of bytes in the control pipe
     dispatched             log of dispatched foreign events (ghost)
     appended, returned     per thread: how many of its fires have appended /
                            have returned from fire() (ghost)

   Time.  time_left is -1 (unlimited), 0, or T (some positive time; only when
   timer = TRUE, standing for a Timer or any other generate_events handler that
   lowers it).  A timed wait may time out only while no event whose fire() has
   returned is queued (TimeoutOK): a wake-up that needs a timeout - the
   fallback's 10000 s re-check, a poll timeout - counts as no wake-up. *)
EXTENDS Integers, Sequences, FiniteSets, TLC

CONSTANTS Firers,     \* set of strings, e.g. {"f1", "f2"}
          Variants,   \* subset of {"fallback", "poller"}: the idle handler (chosen in the initial state)
          Timers,     \* subset of BOOLEAN: may another generate_events handler lower time_left to T?
          Quotas,     \* set of functions [Firers -> Nat]: how many times each firer calls fire()
          NFiresSet,  \* (for Quotas <- UniformQuotas) the numbers of fires per firer
          MaxFires,   \* an upper bound of every quota (quantifier bound of the properties)
          Mutant,     \* "none" or the name of a deliberately broken algorithm (teeth)
          WithStop    \* BOOLEAN: model Manager.stop() from a foreign thread at the end

(* One run of TLC covers every combination of idle handler, timer and quota
   allowed by the configuration: they are variables that never change. *)
UniformQuotas == {[f \in Firers |-> k] : k \in NFiresSet}
AllQuotas == [Firers -> 0..MaxFires]
(* every firer fires NFiresSet times, or one firer alone fires MaxFires times in a row *)
MixedQuotas == UniformQuotas \cup {[f \in Firers |-> IF f = (CHOOSE g \in Firers : TRUE) THEN MaxFires ELSE 0]}

None == 2             \* handling: nothing
Ev   == 3             \* handling: an ordinary event
T    == 1             \* the positive time_left
Stoppers == IF WithStop THEN {"stop"} ELSE {}
Threads  == Firers \cup Stoppers
Range(s) == {s[i] : i \in 1..Len(s)}

Mutants == {"none",
            "clear_after_read",     \* fallback clears _continue after reading time_left < 0
            "clear_after_lock",     \* fallback clears _continue after the `with event.lock` block
            "append_before_lock",   \* _fire appends before taking the lock
            "append_after_lock",    \* _fire appends after releasing the lock
            "no_qlen",              \* arming ignores len(self._queue)
            "resume_before_assign", \* reduce_time_left tests _time_left == 0 before assigning
            "no_arm_lock",          \* the dispatcher arms generate_events without the lock
            "counter_reset"}        \* dispatchEvents ends with `if not self._queue: self._counter = -1`

ASSUME /\ Variants \subseteq {"fallback", "poller"} /\ Mutant \in Mutants
       /\ Timers \subseteq BOOLEAN /\ WithStop \in BOOLEAN /\ MaxFires \in Nat
       /\ \A q \in Quotas : \A f \in Firers : q[f] \in 0..MaxFires
       /\ "loop" \notin Firers /\ "stop" \notin Firers /\ "ge" \notin Firers /\ "none" \notin Firers

(* --algorithm Wakeup {
variables
  variant \in Variants, timer \in Timers, quota \in Quotas,
  lockOwner = "none", lockDepth = 0,
  running = TRUE,
  handling = None,
  gen = 0,
  timeLeft = [i \in {0, 1} |-> -1],
  geHandler = [i \in {0, 1} |-> "none"],
  pending = <<>>, batch = <<>>,
  ctr = 0,
  flag = 0,
  dispatched = <<>>,
  appended = [f \in Threads |-> 0],
  returned = [f \in Threads |-> 0];

define {
  QLen == Len(pending) + Len(batch)
  Queued == Range(pending) \cup Range(batch)
  Foreign(e) == e[1] # "ge"
  Returned(e) == returned[e[1]] >= e[2]
  (* a timed wait may end by its timeout only if that does not stand in for a wake-up *)
  TimeoutOK == \A e \in Queued : Foreign(e) => ~Returned(e)
  Quota(f) == IF f \in Firers THEN quota[f] ELSE 1
  AllDispatched == \A f \in Firers : /\ returned[f] = quota[f]
                                     /\ \A k \in 1..quota[f] : <<f, k>> \in Range(dispatched)
  InFlight(f) == appended[f] > returned[f]
  (* the items the heap may pop next: those that share the smallest stamp *)
  Lead == {k \in 1..Len(batch) : \A j \in 1..Len(batch) : batch[j][3] >= batch[k][3]}
  Without(q, k) == [j \in 1..(Len(q) - 1) |-> IF j < k THEN q[j] ELSE q[j + 1]]
}

macro Acquire(me) {
  await lockOwner \in {"none", me};
  lockOwner := me || lockDepth := lockDepth + 1;
}
macro Release() {
  lockOwner := IF lockDepth = 1 THEN "none" ELSE lockOwner || lockDepth := lockDepth - 1;
}
macro Inc() {                       \* self._counter += 1
  ctr := IF QLen = 0 /\ Mutant # "counter_reset" THEN 1 ELSE ctr + 1;
}
macro Enqueue(who, num) {           \* self._queue.append((priority, self._counter, ...))
  pending := Append(pending, <<who, num, ctr>>);
}
macro EnqueueNew(who, num) {        \* increment and append in one step (broken variants only)
  with (c = IF QLen = 0 THEN 1 ELSE ctr + 1) {
    pending := Append(pending, <<who, num, c>>);
    ctr := c;
  };
}
macro SetFlag() {
  flag := IF variant = "fallback" THEN 1 ELSE flag + 1;
}

(* generate_events.reduce_time_left(v) on instance ri, by any thread *)
procedure reduce(ri = 0, rv = 0) {
R_acq:  Acquire(self);                                \* with self._lock:  (the test below reads what only lock holders write)
        if (~(rv >= 0 /\ (timeLeft[ri] < 0 \/ timeLeft[ri] > rv))) { goto R_rel };
R_set:  if (Mutant = "resume_before_assign") {
          if (timeLeft[ri] = 0 /\ geHandler[ri] = "idle") { SetFlag() };
          timeLeft[ri] := rv;
          goto R_rel;
        } else {
          timeLeft[ri] := rv;                         \* self._time_left = time_left
        };
R_hand: if (timeLeft[ri] = 0 /\ geHandler[ri] = "idle") {   \* if self._time_left == 0 and self.handler is not None (and has resume)
R_res:    SetFlag();                                  \* resume(): _continue.set() / os.write(ctrl)
        };
R_rel:  Release();
        return;
}

fair process (loop = "loop")
variables ev = <<>>, rem = 0, tl = 0, g = 0, fade = 0;
{
T_cond:                                               \* run(): while self.running or len(self._queue):
  if (~(running \/ QLen > 0)) { fade := 1 };          \* ... then exactly 3 + 1 more ticks
T_run:                                                \* tick(): if self._running:
  if (running) {
T_inc:                                                \* own-thread _fire, no lock: _EventQueue.append: self._counter += 1
    Inc();
T_fire:                                               \* self._queue.append((priority, self._counter, ...))
    with (ng = 1 - gen) {
      gen := ng;
      timeLeft[ng] := -1 || geHandler[ng] := "none";
      Enqueue("ge", ng);
    };
  };
T_len:                                                \* if len(self._queue): self.flush()
  if (QLen > 0) {
D_snap:                                               \* _flush_batch = count = len(self._queue); deque -> heap
    batch := batch \o pending; pending := <<>>;
D_pop:                                                \* (event, channels) = heappop(...); dispatcher(event, channels, remaining)
      with (k \in Lead) {
        ev := batch[k]; rem := Len(batch) - 1; batch := Without(batch, k);
      };
      if (Foreign(ev)) {
        dispatched := Append(dispatched, <<ev[1], ev[2]>>);   \* (the dispatch is logged on entry of _dispatcher)
D_set:  handling := Ev;                               \* self._currently_handling = event
      } else {
        g := ev[2];
        if (Mutant = "no_arm_lock") {
M_set:    handling := g;
M_test:   if (rem > 0 \/ QLen > 0 \/ ~running) { call reduce(g, 0) };
M_end:    if (timer) { goto H_tim } else { goto H_idle };
        } else {
A_lock:   Acquire("loop");                                  \* with self._lock:
A_set:    handling := g;                              \* self._currently_handling = event
A_test:   if (rem > 0 \/ (Mutant # "no_qlen" /\ QLen > 0) \/ ~running) {
            call reduce(g, 0);                        \* event.handler is None: no resume
          };
A_unl:    Release();
          if (timer) {
H_tim:      geHandler[g] := "timer";                  \* event.handler = <handler whose component has no resume()>
H_low:      either { call reduce(g, T) } or { skip }; \* that handler may lower time_left
          };
        };
H_idle: geHandler[g] := "idle";                       \* event.handler = the idle handler
        if (variant = "fallback") {
I_lock:   Acquire("loop");                                  \* with event.lock:
I_clr:    if (Mutant \notin {"clear_after_read", "clear_after_lock"}) { flag := 0 };   \* _continue.clear()
I_unl:    Release();
          if (Mutant = "clear_after_lock") {
I_mclr:     flag := 0;
          };
I_rd1:    tl := timeLeft[g];                          \* if event.time_left > 0:
          if (tl > 0) {
I_rd1b:     tl := timeLeft[g];                        \* the argument of wait()
I_twait:    await tl = 0 \/ flag > 0 \/ TimeoutOK;    \* _continue.wait(time_left)
            call reduce(g, 0);                        \* event.reduce_time_left(0): the loop resumes itself
          };
I_rd2:    while (timeLeft[g] < 0) {                   \* while event.time_left < 0:
            if (Mutant = "clear_after_read") {
I_mclr2:      flag := 0;
            };
I_wait:     await flag > 0;                           \* _continue.wait(10000): never ends by itself
          };
        } else {
P_rd:     tl := timeLeft[g];                          \* timeout = event.time_left
P_sel:    await tl = 0 \/ flag > 0 \/ (tl > 0 /\ TimeoutOK);   \* select() / poll()
          if (flag > 0) {
P_drain:    flag := flag - 1;                         \* _read_ctrl(): one byte
          };
        };
      };
D_clr: handling := None;                              \* self._currently_handling = None
      if (batch # <<>>) { goto D_pop }                \* while self._flush_batch > 0  (loop-local)
      else if (Mutant = "counter_reset") { goto D_chk }
      else if (fade = 0) { goto T_cond } else if (fade < 4) { fade := fade + 1; goto T_run } else { goto Done };
  } else {
    if (fade = 0) { goto T_cond } else if (fade < 4) { fade := fade + 1; goto T_run } else { goto Done };
  };
D_chk:                                                \* (variant, end of dispatchEvents) if not self._queue:
  if (Len(pending) = 0) {
D_rst: ctr := -1;                                     \*     self._counter = -1   - not atomic with the check
  };
D_end:
  if (fade = 0) { goto T_cond } else if (fade < 4) { fade := fade + 1; goto T_run } else { goto Done };
}

fair process (firer \in Threads)
variables n = 0, h = None;
{
F_next:                                               \* the thread's script: next call of fire() / stop()
  while (n < Quota(self)) {
    n := n + 1;
    if (Mutant = "append_before_lock") {
      EnqueueNew(self, n);
      appended[self] := n;
    };
    if (self \in Stoppers) {
      await AllDispatched;                            \* the harness ends a run when everything was dispatched
S_stop: running := FALSE;                             \* stop(): self._running = False; self.fire(stopped(self))
    };
F_lock:+
    Acquire(self);                                    \* _fire: with self._lock:
F_rdh:
    h := handling;                                    \* handling = self._currently_handling
F_inc:
    if (Mutant \notin {"append_before_lock", "append_after_lock"}) {
      Inc();                                          \* _EventQueue.append: self._counter += 1
    };
F_app:
    if (Mutant \notin {"append_before_lock", "append_after_lock"}) {
      Enqueue(self, n);                               \* self._queue.append((priority, self._counter, ...))
      appended[self] := n;
    };
    if (h \in {0, 1}) { call reduce(h, 0) };          \* if isinstance(handling, generate_events): reduce_time_left(0)
F_unl:
    Release();                                        \* ... and fire() returns
    h := None;
    if (Mutant = "append_after_lock") {
F_mapp: EnqueueNew(self, n);
      appended[self] := n;
      returned[self] := n;
    } else {
      returned[self] := n;
    };
  };
}
} *)
\* BEGIN TRANSLATION
VARIABLES pc, variant, timer, quota, lockOwner, lockDepth, running, handling, 
          gen, timeLeft, geHandler, pending, batch, ctr, flag, dispatched, 
          appended, returned, stack

(* define statement *)
QLen == Len(pending) + Len(batch)
Queued == Range(pending) \cup Range(batch)
Foreign(e) == e[1] # "ge"
Returned(e) == returned[e[1]] >= e[2]

TimeoutOK == \A e \in Queued : Foreign(e) => ~Returned(e)
Quota(f) == IF f \in Firers THEN quota[f] ELSE 1
AllDispatched == \A f \in Firers : /\ returned[f] = quota[f]
                                   /\ \A k \in 1..quota[f] : <<f, k>> \in Range(dispatched)
InFlight(f) == appended[f] > returned[f]

Lead == {k \in 1..Len(batch) : \A j \in 1..Len(batch) : batch[j][3] >= batch[k][3]}
Without(q, k) == [j \in 1..(Len(q) - 1) |-> IF j < k THEN q[j] ELSE q[j + 1]]

VARIABLES ri, rv, ev, rem, tl, g, fade, n, h

vars == << pc, variant, timer, quota, lockOwner, lockDepth, running, handling, 
           gen, timeLeft, geHandler, pending, batch, ctr, flag, dispatched, 
           appended, returned, stack, ri, rv, ev, rem, tl, g, fade, n, h >>

ProcSet == {"loop"} \cup (Threads)

Init == (* Global variables *)
        /\ variant \in Variants
        /\ timer \in Timers
        /\ quota \in Quotas
        /\ lockOwner = "none"
        /\ lockDepth = 0
        /\ running = TRUE
        /\ handling = None
        /\ gen = 0
        /\ timeLeft = [i \in {0, 1} |-> -1]
        /\ geHandler = [i \in {0, 1} |-> "none"]
        /\ pending = <<>>
        /\ batch = <<>>
        /\ ctr = 0
        /\ flag = 0
        /\ dispatched = <<>>
        /\ appended = [f \in Threads |-> 0]
        /\ returned = [f \in Threads |-> 0]
        (* Procedure reduce *)
        /\ ri = [ self \in ProcSet |-> 0]
        /\ rv = [ self \in ProcSet |-> 0]
        (* Process loop *)
        /\ ev = <<>>
        /\ rem = 0
        /\ tl = 0
        /\ g = 0
        /\ fade = 0
        (* Process firer *)
        /\ n = [self \in Threads |-> 0]
        /\ h = [self \in Threads |-> None]
        /\ stack = [self \in ProcSet |-> << >>]
        /\ pc = [self \in ProcSet |-> CASE self = "loop" -> "T_cond"
                                        [] self \in Threads -> "F_next"]

R_acq(self) == /\ pc[self] = "R_acq"
               /\ lockOwner \in {"none", self}
               /\ /\ lockDepth' = lockDepth + 1
                  /\ lockOwner' = self
               /\ IF ~(rv[self] >= 0 /\ (timeLeft[ri[self]] < 0 \/ timeLeft[ri[self]] > rv[self]))
                     THEN /\ pc' = [pc EXCEPT ![self] = "R_rel"]
                     ELSE /\ pc' = [pc EXCEPT ![self] = "R_set"]
               /\ UNCHANGED << variant, timer, quota, running, handling, gen, 
                               timeLeft, geHandler, pending, batch, ctr, flag, 
                               dispatched, appended, returned, stack, ri, rv, 
                               ev, rem, tl, g, fade, n, h >>

R_set(self) == /\ pc[self] = "R_set"
               /\ IF Mutant = "resume_before_assign"
                     THEN /\ IF timeLeft[ri[self]] = 0 /\ geHandler[ri[self]] = "idle"
                                THEN /\ flag' = (IF variant = "fallback" THEN 1 ELSE flag + 1)
                                ELSE /\ TRUE
                                     /\ flag' = flag
                          /\ timeLeft' = [timeLeft EXCEPT ![ri[self]] = rv[self]]
                          /\ pc' = [pc EXCEPT ![self] = "R_rel"]
                     ELSE /\ timeLeft' = [timeLeft EXCEPT ![ri[self]] = rv[self]]
                          /\ pc' = [pc EXCEPT ![self] = "R_hand"]
                          /\ flag' = flag
               /\ UNCHANGED << variant, timer, quota, lockOwner, lockDepth, 
                               running, handling, gen, geHandler, pending, 
                               batch, ctr, dispatched, appended, returned, 
                               stack, ri, rv, ev, rem, tl, g, fade, n, h >>

R_hand(self) == /\ pc[self] = "R_hand"
                /\ IF timeLeft[ri[self]] = 0 /\ geHandler[ri[self]] = "idle"
                      THEN /\ pc' = [pc EXCEPT ![self] = "R_res"]
                      ELSE /\ pc' = [pc EXCEPT ![self] = "R_rel"]
                /\ UNCHANGED << variant, timer, quota, lockOwner, lockDepth, 
                                running, handling, gen, timeLeft, geHandler, 
                                pending, batch, ctr, flag, dispatched, 
                                appended, returned, stack, ri, rv, ev, rem, tl, 
                                g, fade, n, h >>

R_res(self) == /\ pc[self] = "R_res"
               /\ flag' = (IF variant = "fallback" THEN 1 ELSE flag + 1)
               /\ pc' = [pc EXCEPT ![self] = "R_rel"]
               /\ UNCHANGED << variant, timer, quota, lockOwner, lockDepth, 
                               running, handling, gen, timeLeft, geHandler, 
                               pending, batch, ctr, dispatched, appended, 
                               returned, stack, ri, rv, ev, rem, tl, g, fade, 
                               n, h >>

R_rel(self) == /\ pc[self] = "R_rel"
               /\ /\ lockDepth' = lockDepth - 1
                  /\ lockOwner' = (IF lockDepth = 1 THEN "none" ELSE lockOwner)
               /\ pc' = [pc EXCEPT ![self] = Head(stack[self]).pc]
               /\ ri' = [ri EXCEPT ![self] = Head(stack[self]).ri]
               /\ rv' = [rv EXCEPT ![self] = Head(stack[self]).rv]
               /\ stack' = [stack EXCEPT ![self] = Tail(stack[self])]
               /\ UNCHANGED << variant, timer, quota, running, handling, gen, 
                               timeLeft, geHandler, pending, batch, ctr, flag, 
                               dispatched, appended, returned, ev, rem, tl, g, 
                               fade, n, h >>

reduce(self) == R_acq(self) \/ R_set(self) \/ R_hand(self) \/ R_res(self)
                   \/ R_rel(self)

T_cond == /\ pc["loop"] = "T_cond"
          /\ IF ~(running \/ QLen > 0)
                THEN /\ fade' = 1
                ELSE /\ TRUE
                     /\ fade' = fade
          /\ pc' = [pc EXCEPT !["loop"] = "T_run"]
          /\ UNCHANGED << variant, timer, quota, lockOwner, lockDepth, running, 
                          handling, gen, timeLeft, geHandler, pending, batch, 
                          ctr, flag, dispatched, appended, returned, stack, ri, 
                          rv, ev, rem, tl, g, n, h >>

T_run == /\ pc["loop"] = "T_run"
         /\ IF running
               THEN /\ pc' = [pc EXCEPT !["loop"] = "T_inc"]
               ELSE /\ pc' = [pc EXCEPT !["loop"] = "T_len"]
         /\ UNCHANGED << variant, timer, quota, lockOwner, lockDepth, running, 
                         handling, gen, timeLeft, geHandler, pending, batch, 
                         ctr, flag, dispatched, appended, returned, stack, ri, 
                         rv, ev, rem, tl, g, fade, n, h >>

T_inc == /\ pc["loop"] = "T_inc"
         /\ ctr' = (IF QLen = 0 /\ Mutant # "counter_reset" THEN 1 ELSE ctr + 1)
         /\ pc' = [pc EXCEPT !["loop"] = "T_fire"]
         /\ UNCHANGED << variant, timer, quota, lockOwner, lockDepth, running, 
                         handling, gen, timeLeft, geHandler, pending, batch, 
                         flag, dispatched, appended, returned, stack, ri, rv, 
                         ev, rem, tl, g, fade, n, h >>

T_fire == /\ pc["loop"] = "T_fire"
          /\ LET ng == 1 - gen IN
               /\ gen' = ng
               /\ /\ geHandler' = [geHandler EXCEPT ![ng] = "none"]
                  /\ timeLeft' = [timeLeft EXCEPT ![ng] = -1]
               /\ pending' = Append(pending, <<"ge", ng, ctr>>)
          /\ pc' = [pc EXCEPT !["loop"] = "T_len"]
          /\ UNCHANGED << variant, timer, quota, lockOwner, lockDepth, running, 
                          handling, batch, ctr, flag, dispatched, appended, 
                          returned, stack, ri, rv, ev, rem, tl, g, fade, n, h >>

T_len == /\ pc["loop"] = "T_len"
         /\ IF QLen > 0
               THEN /\ pc' = [pc EXCEPT !["loop"] = "D_snap"]
                    /\ fade' = fade
               ELSE /\ IF fade = 0
                          THEN /\ pc' = [pc EXCEPT !["loop"] = "T_cond"]
                               /\ fade' = fade
                          ELSE /\ IF fade < 4
                                     THEN /\ fade' = fade + 1
                                          /\ pc' = [pc EXCEPT !["loop"] = "T_run"]
                                     ELSE /\ pc' = [pc EXCEPT !["loop"] = "Done"]
                                          /\ fade' = fade
         /\ UNCHANGED << variant, timer, quota, lockOwner, lockDepth, running, 
                         handling, gen, timeLeft, geHandler, pending, batch, 
                         ctr, flag, dispatched, appended, returned, stack, ri, 
                         rv, ev, rem, tl, g, n, h >>

D_snap == /\ pc["loop"] = "D_snap"
          /\ batch' = batch \o pending
          /\ pending' = <<>>
          /\ pc' = [pc EXCEPT !["loop"] = "D_pop"]
          /\ UNCHANGED << variant, timer, quota, lockOwner, lockDepth, running, 
                          handling, gen, timeLeft, geHandler, ctr, flag, 
                          dispatched, appended, returned, stack, ri, rv, ev, 
                          rem, tl, g, fade, n, h >>

D_pop == /\ pc["loop"] = "D_pop"
         /\ \E k \in Lead:
              /\ ev' = batch[k]
              /\ rem' = Len(batch) - 1
              /\ batch' = Without(batch, k)
         /\ IF Foreign(ev')
               THEN /\ dispatched' = Append(dispatched, <<ev'[1], ev'[2]>>)
                    /\ pc' = [pc EXCEPT !["loop"] = "D_set"]
                    /\ g' = g
               ELSE /\ g' = ev'[2]
                    /\ IF Mutant = "no_arm_lock"
                          THEN /\ pc' = [pc EXCEPT !["loop"] = "M_set"]
                          ELSE /\ pc' = [pc EXCEPT !["loop"] = "A_lock"]
                    /\ UNCHANGED dispatched
         /\ UNCHANGED << variant, timer, quota, lockOwner, lockDepth, running, 
                         handling, gen, timeLeft, geHandler, pending, ctr, 
                         flag, appended, returned, stack, ri, rv, tl, fade, n, 
                         h >>

D_set == /\ pc["loop"] = "D_set"
         /\ handling' = Ev
         /\ pc' = [pc EXCEPT !["loop"] = "D_clr"]
         /\ UNCHANGED << variant, timer, quota, lockOwner, lockDepth, running, 
                         gen, timeLeft, geHandler, pending, batch, ctr, flag, 
                         dispatched, appended, returned, stack, ri, rv, ev, 
                         rem, tl, g, fade, n, h >>

H_idle == /\ pc["loop"] = "H_idle"
          /\ geHandler' = [geHandler EXCEPT ![g] = "idle"]
          /\ IF variant = "fallback"
                THEN /\ pc' = [pc EXCEPT !["loop"] = "I_lock"]
                ELSE /\ pc' = [pc EXCEPT !["loop"] = "P_rd"]
          /\ UNCHANGED << variant, timer, quota, lockOwner, lockDepth, running, 
                          handling, gen, timeLeft, pending, batch, ctr, flag, 
                          dispatched, appended, returned, stack, ri, rv, ev, 
                          rem, tl, g, fade, n, h >>

I_lock == /\ pc["loop"] = "I_lock"
          /\ lockOwner \in {"none", "loop"}
          /\ /\ lockDepth' = lockDepth + 1
             /\ lockOwner' = "loop"
          /\ pc' = [pc EXCEPT !["loop"] = "I_clr"]
          /\ UNCHANGED << variant, timer, quota, running, handling, gen, 
                          timeLeft, geHandler, pending, batch, ctr, flag, 
                          dispatched, appended, returned, stack, ri, rv, ev, 
                          rem, tl, g, fade, n, h >>

I_clr == /\ pc["loop"] = "I_clr"
         /\ IF Mutant \notin {"clear_after_read", "clear_after_lock"}
               THEN /\ flag' = 0
               ELSE /\ TRUE
                    /\ flag' = flag
         /\ pc' = [pc EXCEPT !["loop"] = "I_unl"]
         /\ UNCHANGED << variant, timer, quota, lockOwner, lockDepth, running, 
                         handling, gen, timeLeft, geHandler, pending, batch, 
                         ctr, dispatched, appended, returned, stack, ri, rv, 
                         ev, rem, tl, g, fade, n, h >>

I_unl == /\ pc["loop"] = "I_unl"
         /\ /\ lockDepth' = lockDepth - 1
            /\ lockOwner' = (IF lockDepth = 1 THEN "none" ELSE lockOwner)
         /\ IF Mutant = "clear_after_lock"
               THEN /\ pc' = [pc EXCEPT !["loop"] = "I_mclr"]
               ELSE /\ pc' = [pc EXCEPT !["loop"] = "I_rd1"]
         /\ UNCHANGED << variant, timer, quota, running, handling, gen, 
                         timeLeft, geHandler, pending, batch, ctr, flag, 
                         dispatched, appended, returned, stack, ri, rv, ev, 
                         rem, tl, g, fade, n, h >>

I_mclr == /\ pc["loop"] = "I_mclr"
          /\ flag' = 0
          /\ pc' = [pc EXCEPT !["loop"] = "I_rd1"]
          /\ UNCHANGED << variant, timer, quota, lockOwner, lockDepth, running, 
                          handling, gen, timeLeft, geHandler, pending, batch, 
                          ctr, dispatched, appended, returned, stack, ri, rv, 
                          ev, rem, tl, g, fade, n, h >>

I_rd1 == /\ pc["loop"] = "I_rd1"
         /\ tl' = timeLeft[g]
         /\ IF tl' > 0
               THEN /\ pc' = [pc EXCEPT !["loop"] = "I_rd1b"]
               ELSE /\ pc' = [pc EXCEPT !["loop"] = "I_rd2"]
         /\ UNCHANGED << variant, timer, quota, lockOwner, lockDepth, running, 
                         handling, gen, timeLeft, geHandler, pending, batch, 
                         ctr, flag, dispatched, appended, returned, stack, ri, 
                         rv, ev, rem, g, fade, n, h >>

I_rd1b == /\ pc["loop"] = "I_rd1b"
          /\ tl' = timeLeft[g]
          /\ pc' = [pc EXCEPT !["loop"] = "I_twait"]
          /\ UNCHANGED << variant, timer, quota, lockOwner, lockDepth, running, 
                          handling, gen, timeLeft, geHandler, pending, batch, 
                          ctr, flag, dispatched, appended, returned, stack, ri, 
                          rv, ev, rem, g, fade, n, h >>

I_twait == /\ pc["loop"] = "I_twait"
           /\ tl = 0 \/ flag > 0 \/ TimeoutOK
           /\ /\ ri' = [ri EXCEPT !["loop"] = g]
              /\ rv' = [rv EXCEPT !["loop"] = 0]
              /\ stack' = [stack EXCEPT !["loop"] = << [ procedure |->  "reduce",
                                                         pc        |->  "I_rd2",
                                                         ri        |->  ri["loop"],
                                                         rv        |->  rv["loop"] ] >>
                                                     \o stack["loop"]]
           /\ pc' = [pc EXCEPT !["loop"] = "R_acq"]
           /\ UNCHANGED << variant, timer, quota, lockOwner, lockDepth, 
                           running, handling, gen, timeLeft, geHandler, 
                           pending, batch, ctr, flag, dispatched, appended, 
                           returned, ev, rem, tl, g, fade, n, h >>

I_rd2 == /\ pc["loop"] = "I_rd2"
         /\ IF timeLeft[g] < 0
               THEN /\ IF Mutant = "clear_after_read"
                          THEN /\ pc' = [pc EXCEPT !["loop"] = "I_mclr2"]
                          ELSE /\ pc' = [pc EXCEPT !["loop"] = "I_wait"]
               ELSE /\ pc' = [pc EXCEPT !["loop"] = "D_clr"]
         /\ UNCHANGED << variant, timer, quota, lockOwner, lockDepth, running, 
                         handling, gen, timeLeft, geHandler, pending, batch, 
                         ctr, flag, dispatched, appended, returned, stack, ri, 
                         rv, ev, rem, tl, g, fade, n, h >>

I_wait == /\ pc["loop"] = "I_wait"
          /\ flag > 0
          /\ pc' = [pc EXCEPT !["loop"] = "I_rd2"]
          /\ UNCHANGED << variant, timer, quota, lockOwner, lockDepth, running, 
                          handling, gen, timeLeft, geHandler, pending, batch, 
                          ctr, flag, dispatched, appended, returned, stack, ri, 
                          rv, ev, rem, tl, g, fade, n, h >>

I_mclr2 == /\ pc["loop"] = "I_mclr2"
           /\ flag' = 0
           /\ pc' = [pc EXCEPT !["loop"] = "I_wait"]
           /\ UNCHANGED << variant, timer, quota, lockOwner, lockDepth, 
                           running, handling, gen, timeLeft, geHandler, 
                           pending, batch, ctr, dispatched, appended, returned, 
                           stack, ri, rv, ev, rem, tl, g, fade, n, h >>

P_rd == /\ pc["loop"] = "P_rd"
        /\ tl' = timeLeft[g]
        /\ pc' = [pc EXCEPT !["loop"] = "P_sel"]
        /\ UNCHANGED << variant, timer, quota, lockOwner, lockDepth, running, 
                        handling, gen, timeLeft, geHandler, pending, batch, 
                        ctr, flag, dispatched, appended, returned, stack, ri, 
                        rv, ev, rem, g, fade, n, h >>

P_sel == /\ pc["loop"] = "P_sel"
         /\ tl = 0 \/ flag > 0 \/ (tl > 0 /\ TimeoutOK)
         /\ IF flag > 0
               THEN /\ pc' = [pc EXCEPT !["loop"] = "P_drain"]
               ELSE /\ pc' = [pc EXCEPT !["loop"] = "D_clr"]
         /\ UNCHANGED << variant, timer, quota, lockOwner, lockDepth, running, 
                         handling, gen, timeLeft, geHandler, pending, batch, 
                         ctr, flag, dispatched, appended, returned, stack, ri, 
                         rv, ev, rem, tl, g, fade, n, h >>

P_drain == /\ pc["loop"] = "P_drain"
           /\ flag' = flag - 1
           /\ pc' = [pc EXCEPT !["loop"] = "D_clr"]
           /\ UNCHANGED << variant, timer, quota, lockOwner, lockDepth, 
                           running, handling, gen, timeLeft, geHandler, 
                           pending, batch, ctr, dispatched, appended, returned, 
                           stack, ri, rv, ev, rem, tl, g, fade, n, h >>

M_set == /\ pc["loop"] = "M_set"
         /\ handling' = g
         /\ pc' = [pc EXCEPT !["loop"] = "M_test"]
         /\ UNCHANGED << variant, timer, quota, lockOwner, lockDepth, running, 
                         gen, timeLeft, geHandler, pending, batch, ctr, flag, 
                         dispatched, appended, returned, stack, ri, rv, ev, 
                         rem, tl, g, fade, n, h >>

M_test == /\ pc["loop"] = "M_test"
          /\ IF rem > 0 \/ QLen > 0 \/ ~running
                THEN /\ /\ ri' = [ri EXCEPT !["loop"] = g]
                        /\ rv' = [rv EXCEPT !["loop"] = 0]
                        /\ stack' = [stack EXCEPT !["loop"] = << [ procedure |->  "reduce",
                                                                   pc        |->  "M_end",
                                                                   ri        |->  ri["loop"],
                                                                   rv        |->  rv["loop"] ] >>
                                                               \o stack["loop"]]
                     /\ pc' = [pc EXCEPT !["loop"] = "R_acq"]
                ELSE /\ pc' = [pc EXCEPT !["loop"] = "M_end"]
                     /\ UNCHANGED << stack, ri, rv >>
          /\ UNCHANGED << variant, timer, quota, lockOwner, lockDepth, running, 
                          handling, gen, timeLeft, geHandler, pending, batch, 
                          ctr, flag, dispatched, appended, returned, ev, rem, 
                          tl, g, fade, n, h >>

M_end == /\ pc["loop"] = "M_end"
         /\ IF timer
               THEN /\ pc' = [pc EXCEPT !["loop"] = "H_tim"]
               ELSE /\ pc' = [pc EXCEPT !["loop"] = "H_idle"]
         /\ UNCHANGED << variant, timer, quota, lockOwner, lockDepth, running, 
                         handling, gen, timeLeft, geHandler, pending, batch, 
                         ctr, flag, dispatched, appended, returned, stack, ri, 
                         rv, ev, rem, tl, g, fade, n, h >>

A_lock == /\ pc["loop"] = "A_lock"
          /\ lockOwner \in {"none", "loop"}
          /\ /\ lockDepth' = lockDepth + 1
             /\ lockOwner' = "loop"
          /\ pc' = [pc EXCEPT !["loop"] = "A_set"]
          /\ UNCHANGED << variant, timer, quota, running, handling, gen, 
                          timeLeft, geHandler, pending, batch, ctr, flag, 
                          dispatched, appended, returned, stack, ri, rv, ev, 
                          rem, tl, g, fade, n, h >>

A_set == /\ pc["loop"] = "A_set"
         /\ handling' = g
         /\ pc' = [pc EXCEPT !["loop"] = "A_test"]
         /\ UNCHANGED << variant, timer, quota, lockOwner, lockDepth, running, 
                         gen, timeLeft, geHandler, pending, batch, ctr, flag, 
                         dispatched, appended, returned, stack, ri, rv, ev, 
                         rem, tl, g, fade, n, h >>

A_test == /\ pc["loop"] = "A_test"
          /\ IF rem > 0 \/ (Mutant # "no_qlen" /\ QLen > 0) \/ ~running
                THEN /\ /\ ri' = [ri EXCEPT !["loop"] = g]
                        /\ rv' = [rv EXCEPT !["loop"] = 0]
                        /\ stack' = [stack EXCEPT !["loop"] = << [ procedure |->  "reduce",
                                                                   pc        |->  "A_unl",
                                                                   ri        |->  ri["loop"],
                                                                   rv        |->  rv["loop"] ] >>
                                                               \o stack["loop"]]
                     /\ pc' = [pc EXCEPT !["loop"] = "R_acq"]
                ELSE /\ pc' = [pc EXCEPT !["loop"] = "A_unl"]
                     /\ UNCHANGED << stack, ri, rv >>
          /\ UNCHANGED << variant, timer, quota, lockOwner, lockDepth, running, 
                          handling, gen, timeLeft, geHandler, pending, batch, 
                          ctr, flag, dispatched, appended, returned, ev, rem, 
                          tl, g, fade, n, h >>

A_unl == /\ pc["loop"] = "A_unl"
         /\ /\ lockDepth' = lockDepth - 1
            /\ lockOwner' = (IF lockDepth = 1 THEN "none" ELSE lockOwner)
         /\ IF timer
               THEN /\ pc' = [pc EXCEPT !["loop"] = "H_tim"]
               ELSE /\ pc' = [pc EXCEPT !["loop"] = "H_idle"]
         /\ UNCHANGED << variant, timer, quota, running, handling, gen, 
                         timeLeft, geHandler, pending, batch, ctr, flag, 
                         dispatched, appended, returned, stack, ri, rv, ev, 
                         rem, tl, g, fade, n, h >>

H_tim == /\ pc["loop"] = "H_tim"
         /\ geHandler' = [geHandler EXCEPT ![g] = "timer"]
         /\ pc' = [pc EXCEPT !["loop"] = "H_low"]
         /\ UNCHANGED << variant, timer, quota, lockOwner, lockDepth, running, 
                         handling, gen, timeLeft, pending, batch, ctr, flag, 
                         dispatched, appended, returned, stack, ri, rv, ev, 
                         rem, tl, g, fade, n, h >>

H_low == /\ pc["loop"] = "H_low"
         /\ \/ /\ /\ ri' = [ri EXCEPT !["loop"] = g]
                  /\ rv' = [rv EXCEPT !["loop"] = T]
                  /\ stack' = [stack EXCEPT !["loop"] = << [ procedure |->  "reduce",
                                                             pc        |->  "H_idle",
                                                             ri        |->  ri["loop"],
                                                             rv        |->  rv["loop"] ] >>
                                                         \o stack["loop"]]
               /\ pc' = [pc EXCEPT !["loop"] = "R_acq"]
            \/ /\ TRUE
               /\ pc' = [pc EXCEPT !["loop"] = "H_idle"]
               /\ UNCHANGED <<stack, ri, rv>>
         /\ UNCHANGED << variant, timer, quota, lockOwner, lockDepth, running, 
                         handling, gen, timeLeft, geHandler, pending, batch, 
                         ctr, flag, dispatched, appended, returned, ev, rem, 
                         tl, g, fade, n, h >>

D_clr == /\ pc["loop"] = "D_clr"
         /\ handling' = None
         /\ IF batch # <<>>
               THEN /\ pc' = [pc EXCEPT !["loop"] = "D_pop"]
                    /\ fade' = fade
               ELSE /\ IF Mutant = "counter_reset"
                          THEN /\ pc' = [pc EXCEPT !["loop"] = "D_chk"]
                               /\ fade' = fade
                          ELSE /\ IF fade = 0
                                     THEN /\ pc' = [pc EXCEPT !["loop"] = "T_cond"]
                                          /\ fade' = fade
                                     ELSE /\ IF fade < 4
                                                THEN /\ fade' = fade + 1
                                                     /\ pc' = [pc EXCEPT !["loop"] = "T_run"]
                                                ELSE /\ pc' = [pc EXCEPT !["loop"] = "Done"]
                                                     /\ fade' = fade
         /\ UNCHANGED << variant, timer, quota, lockOwner, lockDepth, running, 
                         gen, timeLeft, geHandler, pending, batch, ctr, flag, 
                         dispatched, appended, returned, stack, ri, rv, ev, 
                         rem, tl, g, n, h >>

D_chk == /\ pc["loop"] = "D_chk"
         /\ IF Len(pending) = 0
               THEN /\ pc' = [pc EXCEPT !["loop"] = "D_rst"]
               ELSE /\ pc' = [pc EXCEPT !["loop"] = "D_end"]
         /\ UNCHANGED << variant, timer, quota, lockOwner, lockDepth, running, 
                         handling, gen, timeLeft, geHandler, pending, batch, 
                         ctr, flag, dispatched, appended, returned, stack, ri, 
                         rv, ev, rem, tl, g, fade, n, h >>

D_rst == /\ pc["loop"] = "D_rst"
         /\ ctr' = -1
         /\ pc' = [pc EXCEPT !["loop"] = "D_end"]
         /\ UNCHANGED << variant, timer, quota, lockOwner, lockDepth, running, 
                         handling, gen, timeLeft, geHandler, pending, batch, 
                         flag, dispatched, appended, returned, stack, ri, rv, 
                         ev, rem, tl, g, fade, n, h >>

D_end == /\ pc["loop"] = "D_end"
         /\ IF fade = 0
               THEN /\ pc' = [pc EXCEPT !["loop"] = "T_cond"]
                    /\ fade' = fade
               ELSE /\ IF fade < 4
                          THEN /\ fade' = fade + 1
                               /\ pc' = [pc EXCEPT !["loop"] = "T_run"]
                          ELSE /\ pc' = [pc EXCEPT !["loop"] = "Done"]
                               /\ fade' = fade
         /\ UNCHANGED << variant, timer, quota, lockOwner, lockDepth, running, 
                         handling, gen, timeLeft, geHandler, pending, batch, 
                         ctr, flag, dispatched, appended, returned, stack, ri, 
                         rv, ev, rem, tl, g, n, h >>

loop == T_cond \/ T_run \/ T_inc \/ T_fire \/ T_len \/ D_snap \/ D_pop
           \/ D_set \/ H_idle \/ I_lock \/ I_clr \/ I_unl \/ I_mclr
           \/ I_rd1 \/ I_rd1b \/ I_twait \/ I_rd2 \/ I_wait \/ I_mclr2
           \/ P_rd \/ P_sel \/ P_drain \/ M_set \/ M_test \/ M_end
           \/ A_lock \/ A_set \/ A_test \/ A_unl \/ H_tim \/ H_low \/ D_clr
           \/ D_chk \/ D_rst \/ D_end

F_next(self) == /\ pc[self] = "F_next"
                /\ IF n[self] < Quota(self)
                      THEN /\ n' = [n EXCEPT ![self] = n[self] + 1]
                           /\ IF Mutant = "append_before_lock"
                                 THEN /\ LET c == IF QLen = 0 THEN 1 ELSE ctr + 1 IN
                                           /\ pending' = Append(pending, <<self, n'[self], c>>)
                                           /\ ctr' = c
                                      /\ appended' = [appended EXCEPT ![self] = n'[self]]
                                 ELSE /\ TRUE
                                      /\ UNCHANGED << pending, ctr, appended >>
                           /\ IF self \in Stoppers
                                 THEN /\ AllDispatched
                                      /\ pc' = [pc EXCEPT ![self] = "S_stop"]
                                 ELSE /\ pc' = [pc EXCEPT ![self] = "F_lock"]
                      ELSE /\ pc' = [pc EXCEPT ![self] = "Done"]
                           /\ UNCHANGED << pending, ctr, appended, n >>
                /\ UNCHANGED << variant, timer, quota, lockOwner, lockDepth, 
                                running, handling, gen, timeLeft, geHandler, 
                                batch, flag, dispatched, returned, stack, ri, 
                                rv, ev, rem, tl, g, fade, h >>

F_lock(self) == /\ pc[self] = "F_lock"
                /\ lockOwner \in {"none", self}
                /\ /\ lockDepth' = lockDepth + 1
                   /\ lockOwner' = self
                /\ pc' = [pc EXCEPT ![self] = "F_rdh"]
                /\ UNCHANGED << variant, timer, quota, running, handling, gen, 
                                timeLeft, geHandler, pending, batch, ctr, flag, 
                                dispatched, appended, returned, stack, ri, rv, 
                                ev, rem, tl, g, fade, n, h >>

F_rdh(self) == /\ pc[self] = "F_rdh"
               /\ h' = [h EXCEPT ![self] = handling]
               /\ pc' = [pc EXCEPT ![self] = "F_inc"]
               /\ UNCHANGED << variant, timer, quota, lockOwner, lockDepth, 
                               running, handling, gen, timeLeft, geHandler, 
                               pending, batch, ctr, flag, dispatched, appended, 
                               returned, stack, ri, rv, ev, rem, tl, g, fade, 
                               n >>

F_inc(self) == /\ pc[self] = "F_inc"
               /\ IF Mutant \notin {"append_before_lock", "append_after_lock"}
                     THEN /\ ctr' = (IF QLen = 0 /\ Mutant # "counter_reset" THEN 1 ELSE ctr + 1)
                     ELSE /\ TRUE
                          /\ ctr' = ctr
               /\ pc' = [pc EXCEPT ![self] = "F_app"]
               /\ UNCHANGED << variant, timer, quota, lockOwner, lockDepth, 
                               running, handling, gen, timeLeft, geHandler, 
                               pending, batch, flag, dispatched, appended, 
                               returned, stack, ri, rv, ev, rem, tl, g, fade, 
                               n, h >>

F_app(self) == /\ pc[self] = "F_app"
               /\ IF Mutant \notin {"append_before_lock", "append_after_lock"}
                     THEN /\ pending' = Append(pending, <<self, n[self], ctr>>)
                          /\ appended' = [appended EXCEPT ![self] = n[self]]
                     ELSE /\ TRUE
                          /\ UNCHANGED << pending, appended >>
               /\ IF h[self] \in {0, 1}
                     THEN /\ /\ ri' = [ri EXCEPT ![self] = h[self]]
                             /\ rv' = [rv EXCEPT ![self] = 0]
                             /\ stack' = [stack EXCEPT ![self] = << [ procedure |->  "reduce",
                                                                      pc        |->  "F_unl",
                                                                      ri        |->  ri[self],
                                                                      rv        |->  rv[self] ] >>
                                                                  \o stack[self]]
                          /\ pc' = [pc EXCEPT ![self] = "R_acq"]
                     ELSE /\ pc' = [pc EXCEPT ![self] = "F_unl"]
                          /\ UNCHANGED << stack, ri, rv >>
               /\ UNCHANGED << variant, timer, quota, lockOwner, lockDepth, 
                               running, handling, gen, timeLeft, geHandler, 
                               batch, ctr, flag, dispatched, returned, ev, rem, 
                               tl, g, fade, n, h >>

F_unl(self) == /\ pc[self] = "F_unl"
               /\ /\ lockDepth' = lockDepth - 1
                  /\ lockOwner' = (IF lockDepth = 1 THEN "none" ELSE lockOwner)
               /\ h' = [h EXCEPT ![self] = None]
               /\ IF Mutant = "append_after_lock"
                     THEN /\ pc' = [pc EXCEPT ![self] = "F_mapp"]
                          /\ UNCHANGED returned
                     ELSE /\ returned' = [returned EXCEPT ![self] = n[self]]
                          /\ pc' = [pc EXCEPT ![self] = "F_next"]
               /\ UNCHANGED << variant, timer, quota, running, handling, gen, 
                               timeLeft, geHandler, pending, batch, ctr, flag, 
                               dispatched, appended, stack, ri, rv, ev, rem, 
                               tl, g, fade, n >>

F_mapp(self) == /\ pc[self] = "F_mapp"
                /\ LET c == IF QLen = 0 THEN 1 ELSE ctr + 1 IN
                     /\ pending' = Append(pending, <<self, n[self], c>>)
                     /\ ctr' = c
                /\ appended' = [appended EXCEPT ![self] = n[self]]
                /\ returned' = [returned EXCEPT ![self] = n[self]]
                /\ pc' = [pc EXCEPT ![self] = "F_next"]
                /\ UNCHANGED << variant, timer, quota, lockOwner, lockDepth, 
                                running, handling, gen, timeLeft, geHandler, 
                                batch, flag, dispatched, stack, ri, rv, ev, 
                                rem, tl, g, fade, n, h >>

S_stop(self) == /\ pc[self] = "S_stop"
                /\ running' = FALSE
                /\ pc' = [pc EXCEPT ![self] = "F_lock"]
                /\ UNCHANGED << variant, timer, quota, lockOwner, lockDepth, 
                                handling, gen, timeLeft, geHandler, pending, 
                                batch, ctr, flag, dispatched, appended, 
                                returned, stack, ri, rv, ev, rem, tl, g, fade, 
                                n, h >>

firer(self) == F_next(self) \/ F_lock(self) \/ F_rdh(self) \/ F_inc(self)
                  \/ F_app(self) \/ F_unl(self) \/ F_mapp(self)
                  \/ S_stop(self)

(* Allow infinite stuttering to prevent deadlock on termination. *)
Terminating == /\ \A self \in ProcSet: pc[self] = "Done"
               /\ UNCHANGED vars

Next == loop
           \/ (\E self \in ProcSet: reduce(self))
           \/ (\E self \in Threads: firer(self))
           \/ Terminating

Spec == /\ Init /\ [][Next]_vars
        /\ WF_vars(loop) /\ WF_vars(reduce("loop"))
        /\ \A self \in Threads : WF_vars(firer(self)) /\ SF_vars(F_lock(self)) /\ WF_vars(reduce(self))

Termination == <>(\A self \in ProcSet: pc[self] = "Done")

\* END TRANSLATION 

-----------------------------------------------------------------------------
(* The initial state of the specification is the idle manager: the loop sits in
   the idle wait of a generate_events instance (slot 0) that was armed with an
   empty queue.  This is the state the harness starts every real run from (the
   loop thread is run alone until it blocks for the first time); the state
   "loop at T_cond, nothing queued" of the PlusCal Init is never reached by a
   running manager before its first wake-up. *)
InitIdle ==
        /\ variant \in Variants
        /\ timer \in Timers
        /\ quota \in Quotas
        /\ lockOwner = "none"
        /\ lockDepth = 0
        /\ running = TRUE
        /\ handling = 0
        /\ gen = 0
        /\ timeLeft = [i \in {0, 1} |-> -1]
        /\ geHandler = [i \in {0, 1} |-> IF i = 0 THEN "idle" ELSE "none"]
        /\ pending = <<>>
        /\ batch = <<>>
        /\ ctr = 0
        /\ flag = 0
        /\ dispatched = <<>>
        /\ appended = [f \in Threads |-> 0]
        /\ returned = [f \in Threads |-> 0]
        /\ ri = [ self \in ProcSet |-> 0]
        /\ rv = [ self \in ProcSet |-> 0]
        /\ ev = <<"ge", 0, 0>>
        /\ rem = 0
        /\ tl = -1
        /\ g = 0
        /\ fade = 0
        /\ n = [self \in Threads |-> 0]
        /\ h = [self \in Threads |-> None]
        /\ stack = [self \in ProcSet |-> << >>]
        /\ pc = [self \in ProcSet |-> IF self = "loop"
                                        THEN (IF variant = "fallback" THEN "I_wait" ELSE "P_sel")
                                        ELSE "F_next"]

Fairness == /\ WF_vars(loop) /\ WF_vars(reduce("loop"))
            /\ \A self \in Threads : WF_vars(firer(self)) /\ SF_vars(F_lock(self)) /\ WF_vars(reduce(self))
SpecIdle == InitIdle /\ [][Next]_vars /\ Fairness

-----------------------------------------------------------------------------
(* The property (C03) on the model. *)

LoopBlocked == \/ pc["loop"] = "I_wait" /\ flag = 0                 \* untimed: never ends by itself
               \/ pc["loop"] = "I_twait" /\ tl > 0 /\ flag = 0      \* timed: only a timeout could end it
               \/ pc["loop"] = "P_sel" /\ tl # 0 /\ flag = 0
ForeignQueued == \E e \in Queued : Foreign(e)

(* never: the loop sits in its idle wait, nothing in flight will wake it, and
   an event of another thread is queued *)
NoLostWakeup == ~(LoopBlocked /\ ForeignQueued /\ \A f \in Threads : ~InFlight(f))

ExactlyOnce == \A i, j \in 1..Len(dispatched) : i # j => dispatched[i] # dispatched[j]
PerThreadOrder == \A i, j \in 1..Len(dispatched) :
                    (i < j /\ dispatched[i][1] = dispatched[j][1]) => dispatched[i][2] < dispatched[j][2]
OnlyFired == \A i \in 1..Len(dispatched) : appended[dispatched[i][1]] >= dispatched[i][2]
NothingLost == (\A p \in ProcSet : pc[p] = "Done") =>
                 \A f \in Firers : \A k \in 1..quota[f] : <<f, k>> \in Range(dispatched)

(* two generate_events slots suffice: no thread still refers to the slot being reused *)
NoStaleClash == pc["loop"] = "T_fire" => \A f \in Threads : h[f] # 1 - gen

TypeOK == /\ lockOwner \in {"none", "loop"} \cup Threads
          /\ lockDepth \in 0..2 /\ (lockDepth = 0) = (lockOwner = "none")
          /\ running \in BOOLEAN /\ handling \in {None, Ev, 0, 1} /\ gen \in {0, 1}
          /\ timeLeft \in [{0, 1} -> {-1, 0, T}]
          /\ geHandler \in [{0, 1} -> {"none", "timer", "idle"}]
          /\ flag \in 0..(Cardinality(Firers) * MaxFires + 2)
          /\ (variant = "fallback" => flag \in {0, 1})
          /\ variant \in Variants /\ timer \in Timers /\ quota \in Quotas
          /\ ctr \in Int /\ ctr >= -1 /\ (Mutant = "none" => Cardinality(Lead) <= 2)

(* liveness: under weak fairness of every thread (strong for the lock), with
   the timeouts restricted by TimeoutOK, every fired event is dispatched, and
   stop() from a foreign thread ends run() *)
Delivery == \A f \in Firers : \A k \in 1..MaxFires :
              (appended[f] >= k) ~> (<<f, k>> \in Range(dispatched))
LoopEnds == WithStop => <>(pc["loop"] = "Done")

(* what the real scheduler can observe (harness/sched.py snapshot) *)
HKind == IF handling = None THEN "none" ELSE IF handling = Ev THEN "ev"
         ELSE IF handling = gen THEN "ge" ELSE "stale"
Snap == [lock |-> lockOwner, handling |-> HKind, qlen |-> QLen, tl |-> timeLeft[gen],
         handler |-> geHandler[gen], flag |-> flag, blocked |-> LoopBlocked, running |-> running]
=============================================================================
