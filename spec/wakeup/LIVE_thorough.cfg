SPECIFICATION SpecIdle
CONSTANTS
  Firers = {"f1"}
  Variants = {"fallback", "poller"}
  Timers = {TRUE}
  Quotas <- UniformQuotas
  NFiresSet = {2}
  MaxFires = 2
  Mutant = "none"
  WithStop = TRUE
INVARIANT TypeOK
INVARIANT NoLostWakeup
PROPERTY Delivery
PROPERTY LoopEnds
CHECK_DEADLOCK TRUE
