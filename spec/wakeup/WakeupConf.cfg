SPECIFICATION TSpec
CONSTANTS
  Firers = {"f1", "f2"}
  Variants = {"fallback", "poller"}
  Timers = {FALSE, TRUE}
  Quotas <- AllQuotas
  NFiresSet = {}
  MaxFires = 3
  Mutant = "none"
  WithStop = TRUE
INVARIANT Report
INVARIANT NoLostWakeup
INVARIANT PerThreadOrder
INVARIANT ExactlyOnce
CHECK_DEADLOCK FALSE
