----------------------------- MODULE WakeupConf -----------------------------
(* C03 - conformance of recorded REAL schedules with Wakeup.tla (code -> spec).

   A trace is [cfg |-> [variant, timer, names (the firer threads), fires],
   steps |-> <<...>>]: what harness/sched.py recorded during one run of the real
   Manager on real threads in that configuration, one record per step of a
   thread from one labelled point (a label of Wakeup.tla, see LINE_LABELS /
   OP_LABELS in harness/drivers/c03.py) to its next one,

     [t |-> thread, l |-> label it leaves, nl |-> label it reaches ("Done" at
      the end of the thread), hs |-> 1 if the observable snapshot after the
      step was recorded, lock, handling, qlen, tl, handler, flag, blocked,
      running |-> that snapshot]

   in the order in which the steps took effect.  The trace is accepted iff it
   is (the projection of) a behaviour of Wakeup.tla started in InitIdle: every
   record must be matched by a step of that process of the model that leads to
   the recorded label and snapshot.  The verdict is total: the first record
   that no step of the model matches is reported as <<"VERDICT", tid, "drift",
   index>>; a fully matched trace as <<"VERDICT", tid, "", 0>>.  A "drift" is
   not a verdict on C03 (exit status 0, CONFORMANCE-DRIFT): it says that the
   model and the code disagree about an observable step.

   While a trace is being followed the state invariants of Wakeup.tla are
   evaluated on the matched model states (cfg: INVARIANT NoLostWakeup ...). *)
EXTENDS Wakeup, Json, IOUtils

Traces == JsonDeserialize(IOEnv.TRACE_FILE)

VARIABLES tid, i, bad, badline
tvars == <<vars, tid, i, bad, badline>>

Step(p) == IF p = "loop" THEN (loop \/ reduce("loop")) ELSE (firer(p) \/ reduce(p))

(* `blocked` is a function of the loop's label and the flag, both of which are
   compared; it is not compared itself because the snapshot is taken at the
   thread's next point, which may precede the labelled one (the line that calls
   wait() comes before the operation of the Event double). *)
Want(rec) == [lock |-> rec.lock, handling |-> rec.handling, qlen |-> rec.qlen, tl |-> rec.tl,
              handler |-> rec.handler, flag |-> rec.flag, running |-> rec.running]
Seen == [lock |-> Snap.lock, handling |-> Snap.handling, qlen |-> Snap.qlen, tl |-> Snap.tl,
         handler |-> Snap.handler, flag |-> Snap.flag, running |-> Snap.running]

Match(rec) == /\ pc[rec.t] = rec.l
              /\ Step(rec.t)
              /\ pc'[rec.t] = rec.nl
              /\ LET want == Want(rec) IN rec.hs = 1 => Seen' = want

Named(c, f) == \E j \in 1..Len(c.names) : c.names[j] = f

TInit == /\ tid \in 1..Len(Traces) /\ i = 1 /\ bad = "" /\ badline = 0
         /\ InitIdle
         /\ LET c == Traces[tid].cfg IN
              /\ variant = c.variant
              /\ timer = c.timer
              /\ quota = [f \in Firers |-> IF Named(c, f) THEN c.fires ELSE 0]

TNext == /\ i <= Len(Traces[tid].steps) /\ bad = ""
         /\ LET rec == Traces[tid].steps[i] IN
              \/ /\ Match(rec)
                 /\ i' = i + 1
                 /\ UNCHANGED <<tid, bad, badline>>
              \/ /\ ~ENABLED Match(rec)
                 /\ bad' = "drift" /\ badline' = i
                 /\ UNCHANGED <<vars, tid, i>>

TSpec == TInit /\ [][TNext]_tvars

Report == (bad # "" \/ i = Len(Traces[tid].steps) + 1) => PrintT(<<"VERDICT", tid, bad, badline>>)
=============================================================================
