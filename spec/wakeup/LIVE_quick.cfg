SPECIFICATION SpecIdle
CONSTANTS
  Firers = {"f1"}
  Variants = {"fallback"}
  Timers = {TRUE}
  Quotas <- UniformQuotas
  NFiresSet = {1}
  MaxFires = 1
  Mutant = "none"
  WithStop = TRUE
INVARIANT TypeOK
INVARIANT NoLostWakeup
PROPERTY Delivery
PROPERTY LoopEnds
CHECK_DEADLOCK TRUE
