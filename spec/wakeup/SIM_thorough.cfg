SPECIFICATION SpecIdle
CONSTANTS
  Firers = {"f1", "f2"}
  Variants = {"fallback", "poller"}
  Timers = {FALSE, TRUE}
  Quotas <- UniformQuotas
  NFiresSet = {1, 2}
  MaxFires = 2
  Mutant = "none"
  WithStop = TRUE
INVARIANT NoLostWakeup
INVARIANT PerThreadOrder
CHECK_DEADLOCK TRUE
