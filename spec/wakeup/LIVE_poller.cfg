SPECIFICATION SpecIdle
CONSTANTS
  Firers = {"f1"}
  NFires = 2
  Variant = "poller"
  Mutant = "none"
  Timer = TRUE
  WithStop = TRUE
INVARIANT TypeOK
INVARIANT NoLostWakeup
PROPERTY Delivery
PROPERTY LoopEnds
CHECK_DEADLOCK TRUE
