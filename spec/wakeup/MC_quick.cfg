SPECIFICATION SpecIdle
CONSTANTS
  Firers = {"f1", "f2"}
  Variants = {"fallback", "poller"}
  Timers = {FALSE}
  Quotas <- MixedQuotas
  NFiresSet = {1}
  MaxFires = 2
  Mutant = "none"
  WithStop = TRUE
INVARIANT TypeOK
INVARIANT NoStaleClash
INVARIANT NoLostWakeup
INVARIANT ExactlyOnce
INVARIANT PerThreadOrder
INVARIANT OnlyFired
INVARIANT NothingLost
CHECK_DEADLOCK TRUE
