---------------------------- MODULE PollerOps ----------------------------
(* C10 - the property, as a monitor over trace lines.

   One trace = one history of registration / kernel operations over a pool of
   four descriptors (objects 1,2 = ends of socket pair A; 3,4 = ends of pair
   B), driven identically against up to three pollers p (Select, Poll, EPoll),
   each in its own world.  A trace line is a record [k, p, o, ch, a, b, c, d]:

     k="open"      o = object, a = its descriptor number (as measured)
     k="close"     o = object (its descriptor is closed)
     k="addr","addw"  o, ch = channel of the registering component   (p = "":
     k="remr","remw"  o                                               every
     k="discard"   o                                                  poller)
                   with p = a poller name: only that poller (the harness
                   acknowledges a _disconnect by discarding, as Client/Server do);
                   addr/addw: a = 1 if the descriptor is handed over as a plain
                   number, 0 as a socket object (information only)
     k="send","drain","fill"  kernel-side operations (informational: readiness
                   is not predicted by the monitor, it is measured)
     k="poll"      p begins one zero-timeout iteration; a, b, c, d = bit masks
                   (bit o-1) of the open objects measured readable / writable /
                   hung-up (POLLHUP|POLLERR) / holding unread data (FIONREAD > 0)
                   on the raw descriptor right before
     k="read","write","disconnect","error"
                   p fired that event for object o (0: not an object of the
                   pool) and it was delivered on channel ch
     k="endpoll"   end of p's iteration
     k="endstep"   all pollers have done their iteration for this operation

   Clauses (Fail names the first one a line violates):
     C10.missing       registered for a role, open, measured ready: no event
     C10.spurious      event for an open object not registered for that role,
                       or not ready, or twice in one iteration, or _error, or
                       an event outside an iteration, or an "error" line: the
                       poller's handler raised (`exception` event) or an API
                       call raised
     C10.wrong_target  event not addressed to the registering channel
     C10.ghost_fd      _read/_write for a closed object, or any event for a
                       closed object that is not registered any more, or an
                       event for an unregistered open object whose number
                       belonged to a registration that died with its descriptor
     C10.disagree      the pollers' event sets of one step differ
   Slack (outcomes the property leaves open; all accepted):
     * a hung-up registered object may get _disconnect instead of, or in
       addition to, its _read/_write (Poll/EPoll do, Select does not) - except
       that a _disconnect cannot stand in for the _read of an object that still
       holds unread data (the data would be lost: that _read is "actually
       readable" in the plain sense of the statement);
     * an object closed while still registered (environment fault) may get one
       _disconnect (Poll: POLLNVAL) addressed to its channel;
     * in the first iteration after such a fault a poller may report less than
       is ready (Select "preens" and returns), never more; that step is also
       exempt from C10.disagree;
     * hung-up and closed objects are exempt from C10.disagree.            *)
EXTENDS Integers, Sequences, FiniteSets

Obj == 1..4
Pollers == {"select", "poll", "epoll"}
EvKinds == {"read", "write", "disconnect", "error"}

Line(k, p, o, ch, a, b, c, d) == [k |-> k, p |-> p, o |-> o, ch |-> ch, a |-> a, b |-> b, c |-> c, d |-> d]

Bit(m, i) == (m \div (2 ^ (i - 1))) % 2 = 1
SetOf(m) == {i \in Obj : Bit(m, i)}
MaskOf(S) == (IF 1 \in S THEN 1 ELSE 0) + (IF 2 \in S THEN 2 ELSE 0)
           + (IF 3 \in S THEN 4 ELSE 0) + (IF 4 \in S THEN 8 ELSE 0)

PS0 == [rd |-> {}, wr |-> {}, tgt |-> [o \in Obj |-> ""],
        rec |-> FALSE,      \* a registered object was closed since the last iteration
        polling |-> FALSE, exc |-> FALSE,
        r |-> {}, w |-> {}, h |-> {}, dt |-> {}, seen |-> {}]

P0 == [open |-> {}, fd |-> [o \in Obj |-> 0], st |-> [p \in Pollers |-> PS0],
       polled |-> {}, anyexc |-> FALSE, hany |-> {}]

Who(ln) == IF ln.p = "" THEN Pollers ELSE {ln.p} \cap Pollers

Regd(s, o) == o \in s.rd \cup s.wr
Has(s, K, o) == \E e \in s.seen : e[1] = K /\ e[2] = o

(* an open object that is not registered shares its number with a registration
   that died with its descriptor *)
GhostNum(P, s, o) == \E q \in (s.rd \cup s.wr) \ P.open : P.fd[q] = P.fd[o]
NotReg(P, s, o) == IF GhostNum(P, s, o) THEN "C10.ghost_fd" ELSE "C10.spurious"
Tgt(s, ln) == IF ln.ch # s.tgt[ln.o] THEN "C10.wrong_target" ELSE ""

EvFail(P, ln) ==
  IF ln.p \notin Pollers THEN "C10.spurious"
  ELSE
  LET s == P.st[ln.p]
      o == ln.o
      K == ln.k
  IN IF ~s.polling THEN "C10.spurious"
     ELSE IF o \notin Obj THEN "C10.spurious"
     ELSE IF Has(s, K, o) THEN "C10.spurious"
     ELSE IF o \notin P.open THEN
            IF K = "disconnect" /\ Regd(s, o) THEN Tgt(s, ln) ELSE "C10.ghost_fd"
     ELSE CASE K = "read" ->
                 IF o \notin s.rd THEN NotReg(P, s, o)
                 ELSE IF o \notin s.r THEN "C10.spurious" ELSE Tgt(s, ln)
            [] K = "write" ->
                 IF o \notin s.wr THEN NotReg(P, s, o)
                 ELSE IF o \notin s.w THEN "C10.spurious" ELSE Tgt(s, ln)
            [] K = "disconnect" ->
                 IF ~Regd(s, o) THEN NotReg(P, s, o)
                 ELSE IF o \notin s.h THEN "C10.spurious" ELSE Tgt(s, ln)
            [] OTHER -> "C10.spurious"

EndPollFail(P, ln) ==
  IF ln.p \notin Pollers THEN ""
  ELSE
  LET s == P.st[ln.p]
      Dis(o) == o \in s.h /\ Has(s, "disconnect", o)
  IN IF s.exc THEN ""
     ELSE IF \E o \in (s.rd \cap P.open) \cap s.r : ~Has(s, "read", o) /\ ~(Dis(o) /\ o \notin s.dt)
          THEN "C10.missing"
     ELSE IF \E o \in (s.wr \cap P.open) \cap s.w : ~Has(s, "write", o) /\ ~Dis(o) THEN "C10.missing"
     ELSE ""

Core(P, p) == {e \in P.st[p].seen : e[1] \in {"read", "write"} /\ e[2] \in P.open /\ e[2] \notin P.hany}

EndStepFail(P) ==
  IF P.anyexc THEN ""
  ELSE IF \E p, q \in P.polled : Core(P, p) # Core(P, q) THEN "C10.disagree"
  ELSE ""

Fail(P, ln) ==
  CASE ln.k \in EvKinds -> EvFail(P, ln)
    [] ln.k = "endpoll" -> EndPollFail(P, ln)
    [] ln.k = "endstep" -> EndStepFail(P)
    [] OTHER -> ""

UpdSt(P, ps, f(_)) == [P EXCEPT !.st = [p \in Pollers |-> IF p \in ps THEN f(P.st[p]) ELSE P.st[p]]]

Apply(P, ln) ==
  LET o == ln.o IN
  CASE ln.k = "open" -> [P EXCEPT !.open = @ \cup {o}, !.fd = [@ EXCEPT ![o] = ln.a]]
    [] ln.k = "close" ->
         LET f(s) == [s EXCEPT !.rec = @ \/ Regd(s, o)]
         IN [UpdSt(P, Pollers, f) EXCEPT !.open = @ \ {o}]
    [] ln.k = "addr" ->
         LET f(s) == [s EXCEPT !.rd = @ \cup {o}, !.tgt = [@ EXCEPT ![o] = ln.ch]]
         IN UpdSt(P, Who(ln), f)
    [] ln.k = "addw" ->
         LET f(s) == [s EXCEPT !.wr = @ \cup {o}, !.tgt = [@ EXCEPT ![o] = ln.ch]]
         IN UpdSt(P, Who(ln), f)
    [] ln.k = "remr" ->
         LET f(s) == [s EXCEPT !.rd = @ \ {o},
                               !.tgt = [@ EXCEPT ![o] = IF o \in s.wr THEN @ ELSE ""]]
         IN UpdSt(P, Who(ln), f)
    [] ln.k = "remw" ->
         LET f(s) == [s EXCEPT !.wr = @ \ {o},
                               !.tgt = [@ EXCEPT ![o] = IF o \in s.rd THEN @ ELSE ""]]
         IN UpdSt(P, Who(ln), f)
    [] ln.k = "discard" ->
         LET f(s) == [s EXCEPT !.rd = @ \ {o}, !.wr = @ \ {o}, !.tgt = [@ EXCEPT ![o] = ""]]
         IN UpdSt(P, Who(ln), f)
    [] ln.k = "poll" /\ ln.p \in Pollers ->
         LET s == P.st[ln.p]
             f(t) == [t EXCEPT !.polling = TRUE, !.exc = t.rec, !.rec = FALSE,
                               !.r = SetOf(ln.a), !.w = SetOf(ln.b), !.h = SetOf(ln.c), !.dt = SetOf(ln.d),
                               !.seen = {}]
         IN [UpdSt(P, {ln.p}, f) EXCEPT !.polled = @ \cup {ln.p},
                                        !.anyexc = @ \/ s.rec,
                                        !.hany = @ \cup SetOf(ln.c)]
    [] ln.k \in EvKinds /\ ln.p \in Pollers ->
         LET f(s) == [s EXCEPT !.seen = @ \cup {<<ln.k, o, ln.ch>>}]
         IN UpdSt(P, {ln.p}, f)
    [] ln.k = "endpoll" /\ ln.p \in Pollers ->
         LET f(s) == [s EXCEPT !.polling = FALSE]
         IN UpdSt(P, {ln.p}, f)
    [] ln.k = "endstep" -> [P EXCEPT !.polled = {}, !.anyexc = FALSE, !.hany = {}]
    [] OTHER -> P

(* Fold a sequence of lines through the monitor: <<P', firstBad>>.
   (TLC passes operator arguments by name: the next monitor state is bound
   through a singleton set so that it is computed once per line.)            *)
RECURSIVE Run(_, _, _)
Run(P, lines, badSoFar) ==
  IF lines = <<>> THEN <<P, badSoFar>>
  ELSE LET ln == Head(lines)
       IN CHOOSE res \in {Run(Q[1], Tail(lines), Q[2]) :
                           Q \in {<<Apply(P, ln), IF badSoFar = "" THEN Fail(P, ln) ELSE badSoFar>>}} : TRUE
=============================================================================
