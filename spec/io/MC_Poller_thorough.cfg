SPECIFICATION Spec
CONSTANTS
  MaxSteps <- NoBound
  Kinds = {"select", "pollfix", "epoll"}
  RegObj = {1, 2, 3}
  IntCapable = {}
  Monitor = TRUE
INVARIANT TypeOK
INVARIANT Conforms
INVARIANT PollExact
INVARIANT NoGhost
INVARIANT Mirror
INVARIANT Unregistered
VIEW FullView
CHECK_DEADLOCK FALSE
