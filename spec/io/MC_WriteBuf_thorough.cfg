SPECIFICATION Spec
CONSTANTS
  Sizes = {0, 1, 2, 3}
  MaxWrites = 4
  MaxSteps = 10
  WithFatalKeep = TRUE
  WithEof = TRUE
  Variant = "requeue"
INVARIANT TypeOK
INVARIANT Conforms
INVARIANT BufferIsSuffix
INVARIANT WriterIffData
VIEW View
CHECK_DEADLOCK FALSE
