SPECIFICATION Spec
CONSTANTS
  Sizes = {0, 1, 2, 3}
  MaxWrites = 4
  MaxSteps = 10
  WithFatalKeep = FALSE
  WithEof = TRUE
  Variant = "requeue"
INVARIANT TypeOK
INVARIANT Conforms
INVARIANT BufferIsSuffix
INVARIANT WriterIffData
VIEW View
CHECK_DEADLOCK FALSE
