SPECIFICATION Spec
CONSTANTS
  MaxSteps <- NoBound
  Kinds = {"poll"}
  RegObj = {1, 3}
  IntCapable = {3}
  Monitor = TRUE
INVARIANT TypeOK
INVARIANT ConformsAll
VIEW FullView
CHECK_DEADLOCK FALSE
