SPECIFICATION Spec
CONSTANTS
  Sizes = {0, 1, 3}
  MaxWrites = 3
  MaxSteps = 7
  WithFatalKeep = FALSE
  WithEof = TRUE
  Variant = "drop"
INVARIANT TypeOK
INVARIANT Conforms
INVARIANT BufferIsSuffix
INVARIANT WriterIffData
VIEW View
CHECK_DEADLOCK FALSE
