---------------------------- MODULE ConnTrace ----------------------------
(* C12 - trace specification: judges traces recorded from the real
   TCPServer / UNIXServer (and TCPClient / UNIXClient) under the real Select,
   Poll and EPoll with the monitor of ConnOps (the same operators the
   generative model Conn.tla is checked against).  One initial state per
   trace; each step consumes one line; the verdict is total: the first failing
   clause is kept in `bad`, consumption goes on, and every further failure
   that is not a repetition (same clause, world, connection and table) is
   collected in `more` (so that one failure - a known one in particular - does
   not hide another).                                                        *)
EXTENDS ConnOps, Json, IOUtils, TLC

Traces == JsonDeserialize(IOEnv.TRACE_FILE)

VARIABLES tid, l, P, bad, badline, more, rep
vars == <<tid, l, P, bad, badline, more, rep>>

MaxMore == 32

Init == /\ tid \in 1..Len(Traces) /\ l = 1 /\ P = P0 /\ bad = "" /\ badline = 0
        /\ more = <<>> /\ rep = {}

Next == /\ l <= Len(Traces[tid])
        /\ LET ln == Traces[tid][l]
               f  == Fail(P, ln)
           IN /\ bad' = IF bad = "" THEN f ELSE bad
              /\ badline' = IF bad = "" /\ f # "" THEN l ELSE badline
              /\ LET key == <<f, ln.p, ln.c, ln.t>>
                 IN IF f # "" /\ key \notin rep /\ Len(more) < MaxMore
                    THEN more' = Append(more, <<f, l>>) /\ rep' = rep \cup {key}
                    ELSE UNCHANGED <<more, rep>>
              /\ P' = Apply(P, ln)
        /\ l' = l + 1
        /\ UNCHANGED tid

Spec == Init /\ [][Next]_vars

(* reported once per trace, when its last line has been consumed *)
Report == (l = Len(Traces[tid]) + 1) => PrintT(<<"VERDICT", tid, bad, badline, more>>)
=============================================================================
