--------------------------- MODULE WriteBufOps ---------------------------
(* C11 - the property, as a monitor over trace lines.

   A trace line is a record [k, a, b, r]:
     k="write"    a = number of bytes handed to a write event
     k="send"     a = stream offset of the first byte handed to the OS, b = length
                  (a = -1: the bytes handed over are not a contiguous slice of
                  what was written), r = "accept" (b is then followed by an
                  "acc" line), "transient", "fatal"
     k="acc"      a = number of bytes the OS accepted of the preceding send
     k="closereq" close requested by the application
     k="close"    the endpoint closed its descriptor
     k="signal"   an error / disconnect(ed) event was observed
     k="quiet"    nothing more will happen: a = 1 iff endpoint still registered
                  for write readiness (then the driver would go on), so a = 0.
   The monitor state is the record P; Fail(P, ln) names the clause of C11 the
   line violates ("" if none); Apply(P, ln) is the next monitor state.
   Both the generative model (WriteBuf.tla) and the trace specification
   (WriteBufTrace.tla) use exactly these operators.                         *)
EXTENDS Integers, Sequences

P0 == [written |-> 0, acked |-> 0, creq |-> -1, closed |-> FALSE,
       failed |-> FALSE, signalled |-> FALSE, lastlen |-> 0]

Line(k, a, b, r) == [k |-> k, a |-> a, b |-> b, r |-> r]

Fail(P, ln) ==
  CASE ln.k = "send" ->
         IF P.closed THEN "C11.write_after_close"
         ELSE IF P.failed THEN "C11.write_after_fatal"  \* the chunk that failed is lost: whatever is handed over now, the
                                                        \* stream the OS gets is no longer a prefix of what was written
         ELSE IF ln.a = -1 THEN "C11.garbled"
         ELSE IF ln.a < P.acked THEN "C11.repeat"
         ELSE IF ln.a > P.acked THEN "C11.gap"
         ELSE IF ln.a + ln.b > P.written THEN "C11.beyond_written"
         ELSE ""
    [] ln.k = "acc" ->
         IF ln.a < 0 \/ ln.a > P.lastlen THEN "C11.bad_accept" ELSE ""
    [] ln.k = "close" ->
         IF P.closed THEN ""
         ELSE IF P.failed THEN ""
         ELSE IF P.creq = -1 THEN "C11.close_unrequested"
         ELSE IF P.acked < P.creq THEN "C11.close_early"
         ELSE ""
    [] ln.k = "quiet" ->
         IF P.failed /\ ~P.signalled THEN "C11.fatal_silent"
         ELSE IF ~P.failed /\ ~P.closed /\ P.acked < P.written THEN "C11.undrained"
         ELSE IF ~P.failed /\ P.closed /\ P.acked < P.creq THEN "C11.close_early"
         ELSE IF ~P.failed /\ P.creq # -1 /\ ~P.closed THEN "C11.close_never"
         ELSE ""
    [] OTHER -> ""

Apply(P, ln) ==
  CASE ln.k = "write" -> [P EXCEPT !.written = @ + ln.a]
    [] ln.k = "send" -> [P EXCEPT !.lastlen = ln.b,
                                   !.failed = @ \/ ln.r = "fatal"]
    [] ln.k = "acc" -> [P EXCEPT !.acked = @ + ln.a]
    [] ln.k = "closereq" -> [P EXCEPT !.creq = IF @ = -1 THEN P.written ELSE @]
    [] ln.k = "close" -> [P EXCEPT !.closed = TRUE]
    [] ln.k = "signal" -> [P EXCEPT !.signalled = TRUE]
    [] OTHER -> P

(* Fold a sequence of lines through the monitor: returns <<P', firstBad>>,
   firstBad = "" if none of them fails.                                     *)
RECURSIVE Run(_, _, _)
Run(P, lines, badSoFar) ==
  IF lines = <<>> THEN <<P, badSoFar>>
  ELSE LET ln == Head(lines)
           f  == IF badSoFar = "" THEN Fail(P, ln) ELSE badSoFar
       IN Run(Apply(P, ln), Tail(lines), f)
=============================================================================
