SPECIFICATION Spec
CONSTANTS
  Sizes = {0, 1, 3}
  MaxWrites = 3
  MaxSteps = 6
  WithFatalKeep = FALSE
  WithEof = TRUE
  Variant = "requeue"
INVARIANT Conforms
CHECK_DEADLOCK FALSE
