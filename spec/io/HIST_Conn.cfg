SPECIFICATION Spec
CONSTANTS
  NConn = 2
  MaxSteps = 5
  Kinds = {"select", "poll", "epoll"}
  Fams = {"tcp", "unix"}
  SendSizes = {3}
  Defects = {"latewrite", "lateclose", "onwrite", "epollmap", "acceptreset"}
INVARIANT TypeOK

CHECK_DEADLOCK FALSE
