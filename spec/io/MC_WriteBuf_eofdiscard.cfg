SPECIFICATION Spec
CONSTANTS
  Sizes = {0, 1, 3}
  MaxWrites = 3
  MaxSteps = 7
  WithFatalKeep = FALSE
  WithEof = TRUE
  Variant = "eofdiscard"
INVARIANT Conforms
VIEW View
CHECK_DEADLOCK FALSE
