SPECIFICATION Spec
CONSTANTS
  Sizes = {0, 1, 3}
  MaxWrites = 3
  MaxSteps = 7
  WithFatalKeep = TRUE
  WithEof = TRUE
  Variant = "requeue"
INVARIANT Conforms
VIEW View
CHECK_DEADLOCK FALSE
