SPECIFICATION Spec
CONSTANTS
  MaxSteps = 4
  Kinds = {"select", "poll", "pollfix", "epoll"}
  RegObj = {1, 3}
  IntCapable = {3}
  Monitor = FALSE
INVARIANT TypeOK
CHECK_DEADLOCK FALSE
