SPECIFICATION Spec
CONSTANTS
  MaxSteps <- NoBound
  Kinds = {"selectesc"}
  RegObj = {1, 3}
  IntCapable = {3}
  Monitor = TRUE
INVARIANT TypeOK
INVARIANT ConformsAll
VIEW FullView
CHECK_DEADLOCK FALSE
