----------------------------- MODULE ConnOps -----------------------------
(* C12 - the property, as a monitor over trace lines.

   One trace = one history of peer actions / server-side requests over up to
   three connections, driven identically against up to three worlds p (a real
   TCPServer or UNIXServer under Select, Poll, EPoll), each with its own
   sockets.  A trace line is a record [k, p, c, a, b, t]; p = world, c =
   connection (0: a socket the harness cannot attribute to a connection).

   environment (what the harness did in world p, with what it measured):
     k="pconnect"  peer c completed connect()
     k="psend"     a = number of bytes the peer's send() actually accepted
     k="pshut"     peer shut down its write side (FIN, still reading)
     k="pclose"    peer closed; a = 1 iff bytes the server wrote were not
                   consumed by the peer at that moment (unread / in flight /
                   still queued in the server: the close may turn into an
                   abort), a = 0: clean FIN
     k="preset"    peer aborted (SO_LINGER 0: RST)
     k="pstop"     peer stops reading (informational)
     k="swrite"    a write event for c's socket was fired, a = bytes
     k="sclose"    a close event for c's socket was fired
     k="lwrite", "lclose"  the same, fired after c's disconnect was observed
                   (informational: the monitor knows the phase itself)
   observed (events delivered to an observer on the server's channel):
     k="connect"
     k="read"      a = stream offset of the payload in what the peer sent
                   (-1: not a contiguous slice of it), b = length
     k="disconnect"
     k="error"
   quiescence (the loop was iterated until nothing changes and nothing is in
   flight in the kernel, measured):
     k="residue"   t = name of a table of the server (_clients, _buffers,
                   _closeq) or of the poller (_read, _write, _targets, _map)
                   that holds c's socket (reported for dead sockets); a = bytes
                   still buffered (t = "_buffers", informational)
     k="quiet"     end of the residue report of world p
     k="endstep"   every world has done this step of the history (p = "")
   client components (c = 1, world p):
     k="cconnected", "cdisconnected"   observed events
     k="cquiet"    a = 1 iff the link is known to be down (the peer closed or
                   aborted it, or the client was asked to close and had
                   nothing to write), a = 0 iff it is known to be up

   Clauses (Fail names the first one a line violates):
     C12.lifecycle         per socket the observed sequence is not in
                           connect . read* . disconnect, or something follows
                           the disconnect, or an event for an unknown socket
     C12.read_gap          a read is not the next slice of what the peer sent
                           (loss, duplication, reordering, garbling); bytes the
                           server's kernel holds are never delivered; a
                           disconnect after a clean FIN before all bytes
     C12.disconnect_count  a second disconnect; none although the peer is gone
     C12.residue           a table still holds a disconnected socket at
                           quiescence (t says which)
     C12.poller_disagree   worlds differ in phase / completeness of a
                           connection at the same quiescent point
     C12.client_pairs      connected / disconnected do not pair up
   Slack (the property leaves these open; all accepted):
     * read segmentation; order of events of different sockets;
     * error events before the disconnect;
     * after an abort, or a close that may turn into one (pclose a=1, a write
       addressed to a peer that has closed), bytes the peer sent may be lost:
       reads must still be a gap-free prefix; such connections are exempt
       from C12.poller_disagree;
     * a close requested by the application may cut unread bytes (Select
       handles write readiness before read readiness, Poll / EPoll the other
       way round: where the cut falls differs);
     * a half-closed or merely idle connection need not be disconnected.   *)
EXTENDS Integers, Sequences, FiniteSets

Conns == 1..3
Pollers == {"select", "poll", "epoll"}

Line(k, p, c, a, b, t) == [k |-> k, p |-> p, c |-> c, a |-> a, b |-> b, t |-> t]

W0 == [pc |-> [c \in Conns |-> FALSE],       \* peer connected
       ph |-> [c \in Conns |-> "none"],      \* observer's view: none / connected / disconnected
       rx |-> [c \in Conns |-> 0],           \* bytes the peer sent
       seen |-> [c \in Conns |-> 0],         \* bytes delivered as read events
       fin |-> [c \in Conns |-> FALSE],      \* the peer sent FIN (shutdown or close)
       gone |-> [c \in Conns |-> FALSE],     \* the peer closed or aborted
       dirty |-> [c \in Conns |-> FALSE],    \* the connection may have been aborted
       sreq |-> [c \in Conns |-> FALSE],     \* the application asked to close it
       settled |-> FALSE,
       cn |-> 0, cd |-> 0]                   \* client component: connected / disconnected counts

(* the monitor state covers the worlds of a trace; the generative model, which
   has one world, starts from PInit({kind}) *)
PInit(S) == [w |-> [p \in S |-> W0]]
P0 == PInit(Pollers)
Worlds(P) == DOMAIN P.w

Clean(s, c) == s.fin[c] /\ ~s.dirty[c] /\ ~s.sreq[c]

EvFail(s, ln) ==
  LET c == ln.c IN
  IF c \notin Conns THEN "C12.lifecycle"
  ELSE CASE ln.k = "connect" ->
              IF s.ph[c] # "none" \/ ~s.pc[c] THEN "C12.lifecycle" ELSE ""
         [] ln.k = "read" ->
              IF s.ph[c] # "connected" THEN "C12.lifecycle"
              ELSE IF ln.a # s.seen[c] \/ ln.b < 1 \/ ln.a + ln.b > s.rx[c] THEN "C12.read_gap"
              ELSE ""
         [] ln.k = "disconnect" ->
              IF s.ph[c] = "disconnected" THEN "C12.disconnect_count"
              ELSE IF s.ph[c] = "none" THEN "C12.lifecycle"
              ELSE IF Clean(s, c) /\ s.seen[c] < s.rx[c] THEN "C12.read_gap"
              ELSE ""
         [] ln.k = "error" ->
              IF s.ph[c] = "disconnected" THEN "C12.lifecycle" ELSE ""
         [] OTHER -> ""

QuietFail(s) ==
  IF \E c \in Conns : s.gone[c] /\ s.ph[c] = "connected" THEN "C12.disconnect_count"
  ELSE IF \E c \in Conns : s.ph[c] = "connected" /\ ~s.dirty[c] /\ s.seen[c] < s.rx[c] THEN "C12.read_gap"
  ELSE IF \E c \in Conns : s.ph[c] = "disconnected" /\ ~s.dirty[c] /\ ~s.sreq[c] /\ s.seen[c] < s.rx[c]
       THEN "C12.read_gap"
  ELSE ""

(* what the worlds must agree on: the phase, and - unless the application asked
   for the close, which may cut unread bytes at a poller-dependent point -
   whether everything the peer sent has been delivered *)
Summary(s, c) == <<s.ph[c], s.sreq[c] \/ s.seen[c] = s.rx[c]>>

EndStepFail(P) ==
  LET S == {p \in Worlds(P) : P.w[p].settled} IN
  IF \E c \in Conns : /\ \A p \in S : ~P.w[p].dirty[c]
                      /\ \E p, q \in S : Summary(P.w[p], c) # Summary(P.w[q], c)
  THEN "C12.poller_disagree" ELSE ""

ClientFail(s, ln) ==
  CASE ln.k = "cconnected" -> IF s.cn > s.cd THEN "C12.client_pairs" ELSE ""
    [] ln.k = "cdisconnected" -> IF s.cd >= s.cn THEN "C12.client_pairs" ELSE ""
    [] ln.k = "cquiet" -> IF ln.a = 1 /\ s.cn # s.cd THEN "C12.client_pairs"
                          ELSE IF ln.a = 0 /\ s.cn # s.cd + 1 THEN "C12.client_pairs"
                          ELSE ""
    [] OTHER -> ""

Fail(P, ln) ==
  IF ln.k = "endstep" THEN EndStepFail(P)
  ELSE IF ln.p \notin Worlds(P) THEN ""
  ELSE LET s == P.w[ln.p] IN
       CASE ln.k \in {"connect", "read", "disconnect", "error"} -> EvFail(s, ln)
         [] ln.k = "residue" ->
              IF ln.c \in Conns /\ s.ph[ln.c] = "disconnected" THEN "C12.residue" ELSE ""
         [] ln.k = "quiet" -> QuietFail(s)
         [] ln.k \in {"cconnected", "cdisconnected", "cquiet"} -> ClientFail(s, ln)
         [] OTHER -> ""

ApplyW(s, ln) ==
  LET c == ln.c IN
  IF ln.k \in {"cconnected", "cdisconnected", "cquiet", "quiet"} THEN
     CASE ln.k = "cconnected" -> [s EXCEPT !.cn = @ + 1]
       [] ln.k = "cdisconnected" -> [s EXCEPT !.cd = @ + 1]
       [] ln.k = "quiet" -> [s EXCEPT !.settled = TRUE]
       [] OTHER -> s
  ELSE IF c \notin Conns THEN s
  ELSE
  CASE ln.k = "pconnect" -> [s EXCEPT !.pc[c] = TRUE]
    [] ln.k = "psend" -> [s EXCEPT !.rx[c] = @ + ln.a]
    [] ln.k = "pshut" -> [s EXCEPT !.fin[c] = TRUE]
    [] ln.k = "pclose" -> [s EXCEPT !.fin[c] = TRUE, !.gone[c] = TRUE, !.dirty[c] = @ \/ ln.a = 1]
    [] ln.k = "preset" -> [s EXCEPT !.gone[c] = TRUE, !.dirty[c] = TRUE]
    [] ln.k \in {"swrite", "lwrite"} -> [s EXCEPT !.dirty[c] = @ \/ s.gone[c]]
    [] ln.k \in {"sclose", "lclose"} -> [s EXCEPT !.sreq[c] = TRUE]
    [] ln.k = "connect" -> [s EXCEPT !.ph[c] = IF @ = "none" THEN "connected" ELSE @]
    [] ln.k = "read" -> [s EXCEPT !.seen[c] = IF ln.a = @ /\ ln.b > 0 THEN @ + ln.b ELSE @]
    [] ln.k = "disconnect" -> [s EXCEPT !.ph[c] = "disconnected"]
    [] OTHER -> s

Apply(P, ln) ==
  IF ln.k = "endstep"
  THEN [P EXCEPT !.w = [p \in Worlds(P) |-> [P.w[p] EXCEPT !.settled = FALSE]]]
  ELSE IF ln.p \notin Worlds(P) THEN P
  ELSE [P EXCEPT !.w[ln.p] = ApplyW(P.w[ln.p], ln)]

(* Fold a sequence of lines through the monitor: <<P', firstBad>>.  The next
   monitor state is bound through a singleton set so that it is computed once
   per line (TLC passes operator arguments by name).                         *)
RECURSIVE Run(_, _, _)
Run(P, lines, badSoFar) ==
  IF lines = <<>> THEN <<P, badSoFar>>
  ELSE LET ln == Head(lines)
       IN CHOOSE res \in {Run(Q[1], Tail(lines), Q[2]) :
                           Q \in {<<Apply(P, ln), IF badSoFar = "" THEN Fail(P, ln) ELSE badSoFar>>}} : TRUE
=============================================================================
