SPECIFICATION Spec
CONSTANTS
  MaxSteps = 8
  Kinds = {"select", "poll", "pollfix", "epoll"}
  RegObj = {1, 2, 3}
  IntCapable = {3}
  Monitor = FALSE
INVARIANT TypeOK
CHECK_DEADLOCK FALSE
