----------------------------- MODULE WriteBuf -----------------------------
(* C11 - generative model of a stream endpoint's write path
   (circuits.net.sockets.Server/Client `write`, `_on_write`, `_write`,
   `close`, `_close`; circuits.io.file.File likewise).

   It is implementation-shaped on purpose: the buffer is a deque of chunks,
   one write-readiness event hands the *head chunk* to the OS, a partial
   accept pushes the rest back to the *front*, a transient refusal pushes the
   whole chunk back.  The environment chooses payload sizes, the outcome of
   every send() and where the close request falls.  Every step emits the
   trace lines the instrumented real endpoint emits, and the C11 monitor of
   WriteBufOps judges them: the invariant Conforms says the monitor never
   flags the model.

   Variant = "requeue" is the intended algorithm.  Variant = "drop" is the
   algorithm of the pinned Client/File (`_write` does not re-queue the chunk
   after EAGAIN/EINTR): TLC then produces the counterexample histories that
   the replay must contain.  It is a generator, never an oracle.
   Variant = "eofdiscard" is the pinned File opened for reading and writing
   ('a+', 'r+', 'w+'): when a read finds end-of-file it stops polling the
   descriptor with poller.discard(), which also forgets the writer while
   chunks are still queued.                                                 *)
EXTENDS WriteBufOps, Naturals, TLC

CONSTANTS Sizes,      \* payload sizes the environment may write
          MaxWrites,  \* number of write events
          MaxSteps,   \* length of the environment history
          Variant,    \* "requeue" | "drop" | "eofdiscard"
          WithEof,    \* BOOLEAN: the endpoint is also read from (File in a '+' mode) and reads hit end-of-file
          WithFatalKeep \* BOOLEAN: include the pinned Client's "signal but stay open" reaction to a fatal errno
                        \* other than EPIPE/ENOTCONN (a defect generator: later chunks are still sent, the stream is no
                        \* longer a prefix; TLC must flag it - MC_WriteBuf_fatalkeep.cfg)

VARIABLES buf,      \* Seq([off, len])   queued chunks            (_buffer / _buffers[sock])
          writing,  \* BOOLEAN           registered as writer      (poller.isWriting)
          closeflag,\* BOOLEAN           close deferred            (_closeflag / _closeq)
          phase,    \* "open" | "closed"
          P,        \* monitor state (WriteBufOps)
          bad,      \* first failed clause, "" if none
          nw,       \* writes so far
          hist,     \* environment history: what the replay drives
          out       \* every line emitted so far (compared with the real trace)

vars == <<buf, writing, closeflag, phase, P, bad, nw, hist, out>>

Emit(lines) == LET r == Run(P, lines, bad) IN P' = r[1] /\ bad' = r[2] /\ out' = out \o lines

Init == /\ buf = <<>> /\ writing = FALSE /\ closeflag = FALSE /\ phase = "open"
        /\ P = P0 /\ bad = "" /\ nw = 0 /\ hist = <<>> /\ out = <<>>

LastKind == IF hist = <<>> THEN "" ELSE hist[Len(hist)][1]
CanStep == Len(hist) < MaxSteps /\ LastKind # "Q"

Write(n) ==
  /\ CanStep /\ phase = "open" /\ ~closeflag /\ P.creq = -1 /\ nw < MaxWrites
  /\ buf' = Append(buf, [off |-> P.written, len |-> n])
  /\ writing' = TRUE /\ nw' = nw + 1
  /\ Emit(<<Line("write", n, 0, "")>>)
  /\ hist' = Append(hist, <<"W", n, 0>>)
  /\ UNCHANGED <<closeflag, phase>>

(* one write-readiness event; kind/k is the environment's send() outcome *)
Ready(kind, k) ==
  /\ CanStep /\ phase = "open" /\ writing
  /\ hist' = Append(hist, <<"R", kind, k>>)
  /\ IF buf = <<>> THEN
        /\ kind = "accept" /\ k = 0      \* no send happens; outcome irrelevant
        /\ IF closeflag
           THEN /\ phase' = "closed" /\ writing' = FALSE /\ closeflag' = FALSE
                /\ Emit(<<Line("close", 0, 0, ""), Line("signal", 0, 0, "")>>)
           ELSE /\ writing' = FALSE /\ Emit(<<>>) /\ UNCHANGED <<phase, closeflag>>
        /\ UNCHANGED <<buf, nw>>
     ELSE
        LET c    == Head(buf)
            rest == Tail(buf)
            snd  == Line("send", c.off, c.len, kind)
        IN
        /\ UNCHANGED nw
        /\ CASE kind = "accept" ->
                  /\ k \in 0..c.len
                  /\ LET nb == IF k < c.len
                               THEN <<[off |-> c.off + k, len |-> c.len - k]>> \o rest
                               ELSE rest
                     IN /\ IF nb = <<>> /\ closeflag
                           THEN /\ buf' = <<>> /\ phase' = "closed" /\ writing' = FALSE
                                /\ closeflag' = FALSE
                                /\ Emit(<<snd, Line("acc", k, 0, ""),
                                          Line("close", 0, 0, ""), Line("signal", 0, 0, "")>>)
                           ELSE /\ buf' = nb /\ writing' = (nb # <<>>)
                                /\ Emit(<<snd, Line("acc", k, 0, "")>>)
                                /\ UNCHANGED <<phase, closeflag>>
             [] kind = "transient" ->
                  /\ k = 0
                  /\ LET nb == IF Variant = "drop" THEN rest ELSE <<c>> \o rest
                     IN /\ IF nb = <<>> /\ closeflag
                           THEN /\ buf' = <<>> /\ phase' = "closed" /\ writing' = FALSE
                                /\ closeflag' = FALSE
                                /\ Emit(<<snd, Line("close", 0, 0, ""), Line("signal", 0, 0, "")>>)
                           ELSE /\ buf' = nb /\ writing' = (nb # <<>>)
                                /\ Emit(<<snd>>) /\ UNCHANGED <<phase, closeflag>>
             [] kind = "fatal" ->
                  /\ k = 0
                  /\ buf' = <<>> /\ phase' = "closed" /\ writing' = FALSE /\ closeflag' = FALSE
                  /\ Emit(<<snd, Line("signal", 0, 0, ""), Line("close", 0, 0, "")>>)
             [] kind = "fatalkeep" ->
                  \* Client on a fatal errno other than EPIPE/ENOTCONN: the error is
                  \* signalled, the chunk is given up, the endpoint stays open
                  /\ k = 0 /\ WithFatalKeep
                  /\ IF rest = <<>> /\ closeflag
                     THEN /\ buf' = <<>> /\ phase' = "closed" /\ writing' = FALSE
                          /\ closeflag' = FALSE
                          /\ Emit(<<Line("send", c.off, c.len, "fatal"), Line("signal", 0, 0, ""),
                                    Line("close", 0, 0, ""), Line("signal", 0, 0, "")>>)
                     ELSE /\ buf' = rest /\ writing' = (rest # <<>>)
                          /\ Emit(<<Line("send", c.off, c.len, "fatal"), Line("signal", 0, 0, "")>>)
                          /\ UNCHANGED <<phase, closeflag>>

(* a read-readiness event that finds end-of-file (File._read, modes with 'a'
   or '+'): the endpoint stops reading; its write side is untouched *)
ReadEof ==
  /\ WithEof /\ CanStep /\ phase = "open"
  /\ hist' = Append(hist, <<"E", "", 0>>)
  /\ writing' = IF Variant = "eofdiscard" THEN FALSE ELSE writing
  /\ Emit(<<Line("eof", 0, 0, "")>>)
  /\ UNCHANGED <<buf, closeflag, phase, nw>>

CloseReq ==
  /\ CanStep /\ phase = "open" /\ P.creq = -1
  /\ hist' = Append(hist, <<"C", "", 0>>)
  /\ IF buf = <<>>
     THEN /\ phase' = "closed" /\ writing' = FALSE
          /\ Emit(<<Line("closereq", 0, 0, ""), Line("close", 0, 0, ""), Line("signal", 0, 0, "")>>)
          /\ UNCHANGED <<buf, closeflag, nw>>
     ELSE /\ closeflag' = TRUE
          /\ Emit(<<Line("closereq", 0, 0, "")>>)
          /\ UNCHANGED <<buf, writing, phase, nw>>

(* quiescence: the driver has delivered write-readiness until the endpoint
   no longer asks for it *)
Quiet ==
  /\ hist # <<>> /\ LastKind # "Q"
  /\ IF phase = "closed" THEN TRUE ELSE ~writing
  /\ hist' = Append(hist, <<"Q", "", 0>>)
  /\ Emit(<<Line("quiet", IF writing THEN 1 ELSE 0, 0, "")>>)
  /\ UNCHANGED <<buf, writing, closeflag, phase, nw>>

Next == \/ \E n \in Sizes : Write(n)
        \/ \E kind \in {"accept", "transient", "fatal", "fatalkeep"}, k \in 0..3 : Ready(kind, k)
        \/ CloseReq
        \/ ReadEof
        \/ Quiet

Spec == Init /\ [][Next]_vars

-----------------------------------------------------------------------------
TypeOK == /\ phase \in {"open", "closed"} /\ writing \in BOOLEAN /\ closeflag \in BOOLEAN
          /\ bad \in STRING

(* C11 as the monitor's verdict on every behaviour of the model *)
Conforms == bad = ""

(* C11 stated directly on the model's state (independent of the monitor):
   the queued chunks are exactly the not-yet-accepted suffix, in order *)
RECURSIVE Contig(_, _)
Contig(s, from) == IF s = <<>> THEN from
                   ELSE IF Head(s).off # from THEN -1
                   ELSE Contig(Tail(s), from + Head(s).len)
BufferIsSuffix == (phase = "open" /\ ~P.failed) => Contig(buf, P.acked) = P.written
WriterIffData  == phase = "open" => (buf # <<>> => writing)

View == <<buf, writing, closeflag, phase, P, bad, nw, Len(hist),
          LastKind>>
=============================================================================
