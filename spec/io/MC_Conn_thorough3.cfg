SPECIFICATION Spec
CONSTANTS
  NConn = 3
  MaxSteps = 6
  Kinds = {"select", "poll", "epoll"}
  Fams = {"tcp", "unix"}
  SendSizes = {3}
  Defects = {}
INVARIANT TypeOK
INVARIANT Conforms
INVARIANT NoTrace
INVARIANT LiveTables
VIEW View
CHECK_DEADLOCK FALSE
