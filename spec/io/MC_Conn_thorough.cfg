SPECIFICATION Spec
CONSTANTS
  NConn = 2
  MaxSteps = 7
  Kinds = {"select", "poll", "epoll"}
  Fams = {"tcp", "unix"}
  SendSizes = {3}
  Defects = {}
INVARIANT TypeOK
INVARIANT Conforms
INVARIANT NoTrace
INVARIANT LiveTables
VIEW View
CHECK_DEADLOCK FALSE
