SPECIFICATION Spec
CONSTANTS
  NConn = 2
  MaxSteps = 6
  Kinds = {"select", "poll", "epoll"}
  Fams = {"tcp", "unix"}
  SendSizes = {3}
  Defects = {"latewrite"}
INVARIANT TypeOK
INVARIANT Conforms
VIEW View
CHECK_DEADLOCK FALSE
