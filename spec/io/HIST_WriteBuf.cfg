SPECIFICATION Spec
CONSTANTS
  Sizes = {0, 1, 3}
  MaxWrites = 2
  MaxSteps = 4
  WithFatalKeep = FALSE
  WithEof = TRUE
  Variant = "requeue"
INVARIANT Conforms
CHECK_DEADLOCK FALSE
