------------------------------- MODULE Conn -------------------------------
(* C12 - generative model of the connection lifecycle of
   circuits.net.sockets.Server (TCPServer / UNIXServer) under one poller.

   Environment: the peers (Connect, Send, ShutWr, Close, Reset, StopReading)
   and the application (SrvWrite, SrvClose, and LateWrite / LateClose addressed
   to a socket whose disconnect has been seen) act on the kernel and on the
   event queue without the loop running; Settle runs the loop to quiescence
   (the harness iterates the real loop with zero time-outs until nothing
   changes and nothing is in flight).  Settle is implementation-shaped: first
   the queued write / close events (`write`, `close` handlers), then per
   connection `_accept` / `_on_accept_done`, `_read`, `_on_write` / `_write`,
   `close` / `_close` with exactly the table updates of the code.  Every step
   emits the trace lines the instrumented real server emits and the C12
   monitor of ConnOps judges them (invariant Conforms); NoTrace states the
   "no state retained" part directly on the model's tables.

   Defects = {} is the intended algorithm.  Each element of Defects switches
   on one deviation found in the pinned code (the replay confirms or refutes
   it on the real classes; the model is a generator, never an oracle):
     "latewrite"   `write` for a socket that is not a client registers it as
                   a writer and creates its buffer
     "lateclose"   `close` for a socket that is not a client creates its buffer
     "onwrite"     `_on_write` looks the buffer up again after `_write` closed
                   the socket on a send error: the entry is re-created
     "epollmap"    EPoll.discard leaves the fileno -> socket entry in `_map`
     "acceptreset" a connection aborted before accept() gets error +
                   disconnect without a connect (TCP)                         *)
EXTENDS ConnOps, Naturals, TLC

CONSTANTS NConn,      \* connections 1..NConn, opened in this order
          MaxSteps,   \* length of the environment history
          Kinds,      \* pollers to choose from
          Fams,       \* socket families to choose from: "tcp", "unix"
          SendSizes,  \* payload sizes of a peer send
          Defects

CS == 1..NConn
Small == 1   \* a server write the kernel takes at once
Big == 2     \* a server write that fills the kernel buffers when the peer does not read

VARIABLES kind, fam,
          pst,    \* peer: "idle" | "open" | "shut" | "closed"
          rdg,    \* peer reads what the server sends
          acc,    \* established, not yet accepted by the server
          sent,   \* bytes the peer sent
          pend,   \* of those, not yet read by the server
          kfin,   \* FIN arrived (sticky: the socket stays readable at EOF)
          krst,   \* the connection was aborted
          sw,     \* the server wrote bytes the peer has not consumed
          sv,     \* server side: "none" | "conn" | "disc"
          T,      \* tables: record of sets of connections + blk: c -> 0 | Small | Big (unsent bytes)
          evq,    \* write / close events fired and not yet handled
          P, bad, hist, out

vars == <<kind, fam, pst, rdg, acc, sent, pend, kfin, krst, sw, sv, T, evq, P, bad, hist, out>>

T0 == [cl |-> {}, bf |-> {}, cq |-> {}, rd |-> {}, wr |-> {}, tg |-> {}, mp |-> {},
       blk |-> [c \in Conns |-> 0]]

Fn(v) == [c \in Conns |-> v]

Init == /\ kind \in Kinds /\ fam \in Fams
        /\ pst = Fn("idle") /\ rdg = Fn(TRUE) /\ acc = Fn(FALSE) /\ sent = Fn(0) /\ pend = Fn(0)
        /\ kfin = Fn(FALSE) /\ krst = Fn(FALSE) /\ sw = Fn(FALSE) /\ sv = Fn("none")
        /\ T = T0 /\ evq = <<>> /\ P = PInit({kind}) /\ bad = "" /\ hist = <<>> /\ out = <<>>

(* out = the lines of the last step (the lines of a history are those of its prefixes) *)
Emit(lines) == LET r == Run(P, lines, bad) IN P' = r[1] /\ bad' = r[2] /\ out' = lines
L(k, c, a, b, t) == Line(k, kind, c, a, b, t)

CanStep == Len(hist) < MaxSteps
LastKind == IF hist = <<>> THEN "" ELSE hist[Len(hist)][1]
Alive(c) == pst[c] \in {"open", "shut"}
Max(a, b) == IF a > b THEN a ELSE b

---------------------------------------------------------------------------
(* peers *)
Connect(c) ==
  /\ CanStep /\ pst[c] = "idle" /\ \A d \in CS : d < c => pst[d] # "idle"
  /\ pst' = [pst EXCEPT ![c] = "open"] /\ acc' = [acc EXCEPT ![c] = TRUE]
  /\ hist' = Append(hist, <<"connect", c, 0>>)
  /\ Emit(<<L("pconnect", c, 0, 0, "")>>)
  /\ UNCHANGED <<kind, fam, rdg, sent, pend, kfin, krst, sw, sv, T, evq>>

Send(c, n) ==
  /\ CanStep /\ pst[c] = "open" /\ sv[c] # "disc"
  /\ sent' = [sent EXCEPT ![c] = @ + n] /\ pend' = [pend EXCEPT ![c] = @ + n]
  /\ hist' = Append(hist, <<"send", c, n>>)
  /\ Emit(<<L("psend", c, n, 0, "")>>)
  /\ UNCHANGED <<kind, fam, pst, rdg, acc, kfin, krst, sw, sv, T, evq>>

ShutWr(c) ==
  /\ CanStep /\ pst[c] = "open"
  /\ pst' = [pst EXCEPT ![c] = "shut"] /\ kfin' = [kfin EXCEPT ![c] = TRUE]
  /\ hist' = Append(hist, <<"shut", c, 0>>)
  /\ Emit(<<L("pshut", c, 0, 0, "")>>)
  /\ UNCHANGED <<kind, fam, rdg, acc, sent, pend, krst, sw, sv, T, evq>>

(* a close with bytes of the server unconsumed may turn into an abort *)
Close(c) ==
  /\ CanStep /\ Alive(c)
  /\ LET dirty == sw[c] IN
     /\ pst' = [pst EXCEPT ![c] = "closed"]
     /\ IF dirty THEN krst' = [krst EXCEPT ![c] = TRUE] /\ UNCHANGED kfin
                 ELSE kfin' = [kfin EXCEPT ![c] = TRUE] /\ UNCHANGED krst
     /\ Emit(<<L("pclose", c, IF dirty THEN 1 ELSE 0, 0, "")>>)
  /\ hist' = Append(hist, <<"close", c, 0>>)
  /\ UNCHANGED <<kind, fam, rdg, acc, sent, pend, sw, sv, T, evq>>

Reset(c) ==
  /\ CanStep /\ Alive(c)
  /\ pst' = [pst EXCEPT ![c] = "closed"] /\ krst' = [krst EXCEPT ![c] = TRUE]
  /\ hist' = Append(hist, <<"reset", c, 0>>)
  /\ Emit(<<L("preset", c, 0, 0, "")>>)
  /\ UNCHANGED <<kind, fam, rdg, acc, sent, pend, kfin, sw, sv, T, evq>>

StopReading(c) ==
  /\ CanStep /\ Alive(c) /\ rdg[c]
  /\ rdg' = [rdg EXCEPT ![c] = FALSE]
  /\ hist' = Append(hist, <<"stop", c, 0>>)
  /\ Emit(<<L("pstop", c, 0, 0, "")>>)
  /\ UNCHANGED <<kind, fam, pst, acc, sent, pend, kfin, krst, sw, sv, T, evq>>

(* the application: events are queued, handled at the next Settle *)
SrvWrite(c, z) ==
  /\ CanStep /\ sv[c] = "conn"
  /\ evq' = Append(evq, <<"w", c, z>>) /\ sw' = [sw EXCEPT ![c] = TRUE]
  /\ hist' = Append(hist, <<"swrite", c, z>>)
  /\ Emit(<<L("swrite", c, z, 0, "")>>)
  /\ UNCHANGED <<kind, fam, pst, rdg, acc, sent, pend, kfin, krst, sv, T>>

SrvClose(c) ==
  /\ CanStep /\ sv[c] = "conn" /\ ~\E i \in 1..Len(hist) : hist[i] = <<"sclose", c, 0>>
  /\ evq' = Append(evq, <<"c", c, 0>>)
  /\ hist' = Append(hist, <<"sclose", c, 0>>)
  /\ Emit(<<L("sclose", c, 0, 0, "")>>)
  /\ UNCHANGED <<kind, fam, pst, rdg, acc, sent, pend, kfin, krst, sw, sv, T>>

LateWrite(c) ==
  /\ CanStep /\ sv[c] = "disc"
  /\ evq' = Append(evq, <<"w", c, Small>>)
  /\ hist' = Append(hist, <<"lwrite", c, Small>>)
  /\ Emit(<<L("lwrite", c, Small, 0, "")>>)
  /\ UNCHANGED <<kind, fam, pst, rdg, acc, sent, pend, kfin, krst, sw, sv, T>>

LateClose(c) ==
  /\ CanStep /\ sv[c] = "disc"
  /\ evq' = Append(evq, <<"c", c, 0>>)
  /\ hist' = Append(hist, <<"lclose", c, 0>>)
  /\ Emit(<<L("lclose", c, 0, 0, "")>>)
  /\ UNCHANGED <<kind, fam, pst, rdg, acc, sent, pend, kfin, krst, sw, sv, T>>

---------------------------------------------------------------------------
(* Settle: a state record threaded through the handlers.  S.sv, S.T as the
   variables; S.pend; S.sw; S.lines = lines emitted so far.                  *)

Add(S, ln) == [S EXCEPT !.lines = Append(@, ln)]

(* Server._close(sock) for a client socket *)
SrvCloseSock(S, c) ==
  LET keepmap == kind = "epoll" /\ "epollmap" \in Defects
      t == S.T
  IN Add([S EXCEPT !.sv[c] = "disc",
                   !.T = [t EXCEPT !.cl = @ \ {c}, !.bf = @ \ {c}, !.rd = @ \ {c}, !.wr = @ \ {c},
                                   !.tg = @ \ {c}, !.mp = IF keepmap THEN @ ELSE @ \ {c},
                                   !.blk[c] = 0]],
         L("disconnect", c, 0, 0, ""))

(* handler of a queued write / close event *)
DoEvent(S, e) ==
  LET c == e[2]
      t == S.T
  IN IF e[1] = "w" THEN
        IF S.sv[c] = "conn"
        THEN [S EXCEPT !.T = [t EXCEPT !.wr = @ \cup {c}, !.tg = @ \cup {c}, !.bf = @ \cup {c},
                                       !.blk[c] = Max(@, e[3])]]
        ELSE IF "latewrite" \in Defects
             THEN IF kind = "select"
                  THEN [S EXCEPT !.T = [t EXCEPT !.bf = @ \cup {c}, !.blk[c] = Small]]   \* buffered; the writer entry is preened by the next select()
                  ELSE IF c \in t.wr
                       THEN [S EXCEPT !.T = [t EXCEPT !.bf = @ \cup {c}, !.blk[c] = Max(@, e[3])]]  \* "is writing" already: only buffered
                       ELSE [S EXCEPT !.T = [t EXCEPT !.wr = @ \cup {c}, !.tg = @ \cup {c}]]  \* register() raises before the buffer is touched
             ELSE S
     ELSE
        IF S.sv[c] = "conn"
        THEN IF t.blk[c] = 0 THEN SrvCloseSock(S, c)
             ELSE [S EXCEPT !.T = [t EXCEPT !.cq = @ \cup {c}, !.bf = @ \cup {c}]]
        ELSE IF "lateclose" \in Defects
             THEN [S EXCEPT !.T = [t EXCEPT !.bf = @ \cup {c},
                                            !.cq = IF t.blk[c] > 0 THEN @ \cup {c} ELSE @]]   \* a buffer left by a late write defers the close for ever
             ELSE S

RECURSIVE DoEvents(_, _)
DoEvents(S, q) == IF q = <<>> THEN S ELSE DoEvents(DoEvent(S, Head(q)), Tail(q))

(* _accept / _on_accept_done *)
DoAccept(S, c) ==
  IF ~acc[c] THEN S
  ELSE IF fam = "tcp" /\ krst[c] /\ "acceptreset" \notin Defects
  THEN [S EXCEPT !.sv[c] = "disc"]                  \* dropped silently, like ECONNABORTED
  ELSE LET t == S.T
           S1 == [S EXCEPT !.sv[c] = "conn",
                           !.T = [t EXCEPT !.cl = @ \cup {c}, !.rd = @ \cup {c}, !.tg = @ \cup {c},
                                           !.mp = IF kind = "select" THEN @ ELSE @ \cup {c}]]
       IN IF fam = "tcp" /\ krst[c]
          THEN SrvCloseSock(Add(S1, L("error", c, 0, 0, "")), c)   \* getpeername() fails: no connect event
          ELSE Add(S1, L("connect", c, 0, 0, ""))

(* an error on send()/recv(): error event, _close; when the socket was a
   writer the error surfaces in (or is followed by) _on_write, which cleans
   _closeq and - defect - looks the buffer up again *)
DoError(S, c) ==
  LET waswr == c \in S.T.wr
      S1 == SrvCloseSock(Add(S, L("error", c, 0, 0, "")), c)
      t1 == S1.T
  IN IF waswr
     THEN [S1 EXCEPT !.T = [t1 EXCEPT !.cq = @ \ {c},
                                     !.bf = IF "onwrite" \in Defects THEN @ \cup {c} ELSE @]]
     ELSE S1

DoRead(S, c) ==
  IF S.pend[c] = 0 THEN S
  ELSE Add([S EXCEPT !.pend[c] = 0], L("read", c, sent[c] - S.pend[c], S.pend[c], ""))

(* _on_write until the buffer is empty or the kernel refuses *)
DoWrite(S, c) ==
  LET t == S.T IN
  IF t.blk[c] = 0 THEN S
  ELSE IF Alive(c)
       THEN IF rdg[c] \/ t.blk[c] = Small
            THEN [S EXCEPT !.T = [t EXCEPT !.blk[c] = 0, !.wr = @ \ {c}], !.sw[c] = ~rdg[c]]
            ELSE S                                    \* blocked: stays a writer
       ELSE IF t.blk[c] = Small
            THEN [S EXCEPT !.T = [t EXCEPT !.blk[c] = 0, !.wr = @ \ {c}]]   \* the kernel still takes it
            ELSE DoError(S, c)

DoEof(S, c) ==
  IF S.sv[c] # "conn" \/ ~kfin[c] THEN S
  ELSE IF S.T.blk[c] = 0 THEN SrvCloseSock(S, c)
  ELSE LET t == S.T IN [S EXCEPT !.T = [t EXCEPT !.cq = @ \cup {c}, !.bf = @ \cup {c}]]

DoCloseQ(S, c) ==
  IF S.sv[c] = "conn" /\ c \in S.T.cq /\ S.T.blk[c] = 0
  THEN LET S1 == SrvCloseSock(S, c)
           t1 == S1.T
       IN [S1 EXCEPT !.T = [t1 EXCEPT !.cq = @ \ {c}]]
  ELSE S

DoConn(S, c) ==
  LET S1 == DoAccept(S, c) IN
  IF S1.sv[c] # "conn" THEN S1
  ELSE IF krst[c]
       THEN DoError(IF c \in S1.T.wr THEN S1 ELSE DoRead(S1, c), c)
       ELSE LET \* Select fires _write before _read: a deferred close whose buffer drains in the
                \* first _on_write closes the socket before its pending input is read
                early == kind = "select" /\ c \in S1.T.cq /\ S1.T.blk[c] = Small
                S2 == IF early THEN DoCloseQ(DoWrite(S1, c), c)
                               ELSE DoCloseQ(DoWrite(DoRead(S1, c), c), c)
            IN IF S2.sv[c] # "conn" THEN S2 ELSE DoEof(S2, c)

RECURSIVE DoConns(_, _)
DoConns(S, c) == IF c > NConn THEN S ELSE DoConns(DoConn(S, c), c + 1)

Tables == <<"_clients", "_buffers", "_closeq", "_read", "_write", "_targets", "_map">>
InTable(t, i, c) == CASE i = 1 -> c \in t.cl [] i = 2 -> c \in t.bf [] i = 3 -> c \in t.cq
                      [] i = 4 -> c \in t.rd [] i = 5 -> c \in t.wr [] i = 6 -> c \in t.tg
                      [] OTHER -> c \in t.mp

RECURSIVE Residue(_, _, _, _)
Residue(S, c, i, acc_) ==
  IF c > NConn THEN acc_
  ELSE IF i > 7 THEN Residue(S, c + 1, 1, acc_)
  ELSE Residue(S, c, i + 1,
               IF S.sv[c] = "disc" /\ InTable(S.T, i, c) THEN Append(acc_, L("residue", c, 0, 0, Tables[i])) ELSE acc_)

Settle ==
  /\ CanStep /\ hist # <<>> /\ LastKind # "settle"
  /\ LET S0 == [sv |-> sv, T |-> T, pend |-> pend, sw |-> sw, lines |-> <<>>]
         S  == DoConns(DoEvents(S0, evq), 1)
         SF == [S EXCEPT !.sw = [c \in Conns |-> IF Alive(c) /\ rdg[c] THEN FALSE ELSE S.sw[c]]]
     IN /\ sv' = SF.sv /\ T' = SF.T /\ pend' = SF.pend /\ sw' = SF.sw
        /\ acc' = Fn(FALSE) /\ evq' = <<>>
        /\ Emit(Residue(SF, 1, 1, SF.lines) \o <<L("quiet", 0, 0, 0, "")>>)
  /\ hist' = Append(hist, <<"settle", 0, 0>>)
  /\ UNCHANGED <<kind, fam, pst, rdg, sent, kfin, krst>>

Next == \/ \E c \in CS : \/ Connect(c) \/ ShutWr(c) \/ Close(c) \/ Reset(c) \/ StopReading(c)
                         \/ SrvClose(c) \/ LateWrite(c) \/ LateClose(c)
                         \/ \E n \in SendSizes : Send(c, n)
                         \/ \E z \in {Small, Big} : SrvWrite(c, z)
        \/ Settle

Spec == Init /\ [][Next]_vars

---------------------------------------------------------------------------
TypeOK == /\ kind \in Pollers /\ fam \in {"tcp", "unix"} /\ bad \in STRING
          /\ \A c \in Conns : sv[c] \in {"none", "conn", "disc"} /\ T.blk[c] \in 0..2

(* C12 as the monitor's verdict on every behaviour of the model *)
Conforms == bad = ""

(* "no state retained", directly on the tables, at quiescence *)
NoTrace == LastKind = "settle" =>
             \A c \in CS : sv[c] = "disc" => \A i \in 1..7 : ~InTable(T, i, c)

(* bookkeeping of a live connection *)
LiveTables == \A c \in CS : sv[c] = "conn" =>
                 /\ c \in T.cl /\ c \in T.rd /\ c \in T.tg
                 /\ (T.blk[c] > 0 => c \in T.wr /\ c \in T.bf)
                 /\ (c \in T.cq => T.blk[c] > 0)

View == <<kind, fam, pst, rdg, acc, sent, pend, kfin, krst, sw, sv, T, evq, P, bad, Len(hist), LastKind>>
=============================================================================
