---------------------------- MODULE PollerTrace ----------------------------
(* C10 - trace specification: judges traces recorded from the real Select,
   Poll and EPoll components (real socket pairs, real kernel) with the monitor
   of PollerOps (the same operators the generative model Poller.tla is checked
   against).  Readiness is not predicted here: the "poll" lines carry what was
   measured on the raw descriptors.

   The batch is a prefix tree of the traces (the replayed histories share most
   of their prefixes, so every distinct trace prefix is judged once): a
   sequence of nodes [ln |-> trace line, kids |-> <<node numbers>>, term |->
   number of the trace that ends here, 0 if none]; node 1 is the root (its ln
   is not a line).  One behaviour per root-to-leaf path, one step per line; the
   verdict is total: the first failing clause is kept in `bad` (with its line
   number in `badline`) and consumption goes on.                            *)
EXTENDS PollerOps, Json, IOUtils, TLC

Trie == JsonDeserialize(IOEnv.TRACE_FILE)

VARIABLES n, d, P, bad, badline
vars == <<n, d, P, bad, badline>>

Init == /\ n = 1 /\ d = 0 /\ P = P0 /\ bad = "" /\ badline = 0

Next == \E i \in 1..Len(Trie[n].kids) :
          LET c  == Trie[n].kids[i]
              ln == Trie[c].ln
              f  == Fail(P, ln)
          IN /\ n' = c
             /\ d' = d + 1
             /\ bad' = IF bad = "" THEN f ELSE bad
             /\ badline' = IF bad = "" /\ f # "" THEN d + 1 ELSE badline
             /\ P' = Apply(P, ln)

Spec == Init /\ [][Next]_vars

(* reported once per trace, when its last line has been consumed *)
Report == (Trie[n].term # 0) => PrintT(<<"VERDICT", Trie[n].term, bad, badline>>)
=============================================================================
