------------------------------ MODULE Poller ------------------------------
(* C10 - generative model of circuits.core.pollers (BasePoller bookkeeping,
   Select / Poll / EPoll kernel registration and one zero-timeout iteration)
   over a pool of four descriptors: objects 1,2 = ends of socket pair A (open
   initially), 3,4 = ends of pair B (opened by the environment later, taking
   the lowest free descriptor numbers: this is how a number is reused).

   The environment chooses registration operations (add/remove reader/writer,
   discard; one owner component, i.e. one channel, per object) and kernel-side
   operations (send a byte, drain, fill the send buffer, close with or without
   discarding first, open pair B, close-and-reopen with no iteration in
   between).  After every operation the poller runs one iteration.  Every step
   emits the trace lines the instrumented real run emits and the C10 monitor
   (PollerOps) judges them.

   A descriptor is registered either as its socket object or, for the objects
   in IntCapable, by number (a plain int, as File/Serial/Notify and foreign
   code do): the environment decides at the first registration of the object
   (operations "addri"/"addwi") and sticks to it.  A number is all the poller
   has of such a descriptor: the fixed Poll cannot tell it is stale (POLLNVAL
   -> _disconnect as before), Select hits EBADF instead of ValueError (and
   preens), late discard still finds the number.  While a descriptor that was
   registered by number is closed but not discarded, its number is not handed
   out again (the registration *is* the number: what is reported for it then is
   by definition addressed to the registering component; not a case of C10).

   kind = which algorithm:  "select", "epoll", "pollfix" = Poll with the
   stale-entry check (in /repo since 123c094).  Defect generators (never
   oracles; TLC must flag them): "poll" = the Poll of the pinned tree, whose
   _process trusts the fileno -> object map even when the object was closed
   and its number now belongs to another descriptor (C10.ghost_fd);
   "selectesc" = a Select whose _preenDescriptors lets the EBADF of a closed
   int descriptor escape: the handler raises (an `exception` event = an
   "error" line) on every iteration, the dead descriptor is never discarded
   and nothing else is reported any more (C10.spurious, C10.missing).       *)
EXTENDS PollerOps, Naturals, TLC, SequencesExt

CONSTANTS MaxSteps,   \* length of the environment history
          Kinds,      \* algorithms explored
          RegObj,     \* objects the environment registers with the poller
          IntCapable, \* objects the environment may register by number (plain int)
          Monitor     \* BOOLEAN: run the emitted lines through the C10 monitor (off when only
                      \* histories and their lines are enumerated for the replay)

Peer(o) == CASE o = 1 -> 2 [] o = 2 -> 1 [] o = 3 -> 4 [] o = 4 -> 3
Chan(o) == <<"c1", "c2", "c3", "c4">>[o]
PName(kd) == IF kd = "pollfix" THEN "poll" ELSE IF kd = "selectesc" THEN "select" ELSE kd
IsSelect(kd) == kd \in {"select", "selectesc"}
Generators == {"poll", "selectesc"}
IsPoll(kd) == kd \in {"poll", "pollfix"}

VARIABLES kind,
          ks,      \* kernel: [open, gone, fd, inq] + how the environment handles each object:
                   \* ints / objs = registered (so far) by number / as socket object
          ps,      \* poller: [rd, wr, tgt, kmask, kmap, emask]
          erd, ewr,\* the environment's own view of what it registered (guards only)
          P, bad,  \* monitor state, first failed clause
          hist,    \* environment history: what a replay drives
          out,     \* the lines emitted by the last step (compared with the real trace)
          lastcore, lastexp, lastexc, lastev   \* last iteration, for the direct invariants

vars == <<kind, ks, ps, erd, ewr, P, bad, hist, out, lastcore, lastexp, lastexc, lastev>>

-----------------------------------------------------------------------------
(* kernel *)
Nums == 1..4
K0 == [open |-> {1, 2}, gone |-> {}, fd |-> [o \in Obj |-> IF o <= 2 THEN o ELSE 0],
       inq |-> [o \in Obj |-> 0],       \* inq: 0 empty, 1 some data, 2 sender blocked
       ints |-> {}, objs |-> {}]
FreeNums(k) == Nums \ {k.fd[o] : o \in k.open}
Lowest(S) == CHOOSE n \in S : \A m \in S : n <= m
KOpenB(k) == LET n3 == Lowest(FreeNums(k))
                 n4 == Lowest(FreeNums(k) \ {n3})
             IN [k EXCEPT !.open = @ \cup {3, 4}, !.fd = [@ EXCEPT ![3] = n3, ![4] = n4]]
KClose(k, o) == [k EXCEPT !.open = @ \ {o}, !.gone = @ \cup {o}, !.inq = [@ EXCEPT ![o] = 0]]
Hup(k, o) == Peer(o) \in k.gone
Rdbl(k, o) == k.inq[o] > 0 \/ Hup(k, o)
Wrbl(k, o) == Hup(k, o) \/ k.inq[Peer(o)] < 2
Holder(k, n) == IF \E o \in k.open : k.fd[o] = n THEN CHOOSE o \in k.open : k.fd[o] = n ELSE 0
BNew(k) == 3 \notin k.open \cup k.gone

-----------------------------------------------------------------------------
(* BasePoller bookkeeping *)
S0 == [rd |-> {}, wr |-> {}, tgt |-> [o \in Obj |-> ""],
       kmask |-> [n \in Nums |-> {}],   \* select.poll object: number -> interest
       kmap  |-> [n \in Nums |-> 0],    \* _map: number -> object
       emask |-> [o \in Obj |-> {}]]    \* epoll object: (description =) object -> interest
BaseDiscard(s, o) == [s EXCEPT !.rd = @ \ {o}, !.wr = @ \ {o}, !.tgt = [@ EXCEPT ![o] = ""]]
BaseAddR(s, o) == [s EXCEPT !.rd = @ \cup {o}, !.tgt = [@ EXCEPT ![o] = Chan(o)]]
BaseAddW(s, o) == [s EXCEPT !.wr = @ \cup {o}, !.tgt = [@ EXCEPT ![o] = Chan(o)]]
BaseRemR(s, o) == [s EXCEPT !.rd = @ \ {o}, !.tgt = [@ EXCEPT ![o] = IF o \in s.wr THEN @ ELSE ""]]
BaseRemW(s, o) == [s EXCEPT !.wr = @ \ {o}, !.tgt = [@ EXCEPT ![o] = IF o \in s.rd THEN @ ELSE ""]]
Mask(s, o) == (IF o \in s.rd THEN {"in"} ELSE {}) \cup (IF o \in s.wr THEN {"out"} ELSE {})
GetTarget(s, o) == IF s.tgt[o] # "" THEN s.tgt[o] ELSE "parent"

(* _updateRegistration(fd): fileno() of a closed socket object is -1 (n = 0); a
   descriptor registered by number is that number, open or not *)
UpdReg(kd, k, s, o) ==
  LET n == IF o \in k.open \/ o \in k.ints THEN k.fd[o] ELSE 0
      m == Mask(s, o)
  IN IF IsSelect(kd) THEN s
     ELSE IF IsPoll(kd) THEN
        IF m # {} THEN   \* the environment never (re)registers a closed object: n # 0
           [s EXCEPT !.kmask = [@ EXCEPT ![n] = m], !.kmap = [@ EXCEPT ![n] = o]]
        ELSE LET t == BaseDiscard(s, o)
             IN IF n = 0 THEN t
                ELSE [t EXCEPT !.kmask = [@ EXCEPT ![n] = {}], !.kmap = [@ EXCEPT ![n] = 0]]
     ELSE \* epoll: unregister fails quietly for a closed / unregistered descriptor;
          \* the _map entry goes when the interest becomes empty (if it is still o's)
        IF m # {} THEN
           [s EXCEPT !.emask = [@ EXCEPT ![o] = m], !.kmap = [@ EXCEPT ![n] = o]]
        ELSE LET t == BaseDiscard(s, o)
             IN IF n = 0 THEN t
                ELSE [t EXCEPT !.emask = [@ EXCEPT ![o] = {}],
                               !.kmap = [@ EXCEPT ![n] = IF @ = o THEN 0 ELSE @]]

AddR(kd, k, s, o) == UpdReg(kd, k, BaseAddR(s, o), o)
AddW(kd, k, s, o) == UpdReg(kd, k, BaseAddW(s, o), o)
RemR(kd, k, s, o) == UpdReg(kd, k, BaseRemR(s, o), o)
RemW(kd, k, s, o) == UpdReg(kd, k, BaseRemW(s, o), o)
Disc(kd, k, s, o) == UpdReg(kd, k, BaseDiscard(s, o), o)
(* the kernel drops a closed description from every epoll set *)
OnClose(s, o) == [s EXCEPT !.emask = [@ EXCEPT ![o] = {}]]

-----------------------------------------------------------------------------
(* one iteration: <<poller state, set of <<kind, object, channel>> >> *)
RECURSIVE DiscardAll(_, _)
DiscardAll(s, S) == IF S = {} THEN s
                    ELSE LET o == CHOOSE o \in S : TRUE IN DiscardAll(BaseDiscard(s, o), S \ {o})

Revents(k, holder, m) ==
  IF holder = 0 THEN {"nval"}
  ELSE (IF "in" \in m /\ Rdbl(k, holder) THEN {"in"} ELSE {})
       \cup (IF "out" \in m /\ Wrbl(k, holder) THEN {"out"} ELSE {})
       \cup (IF Hup(k, holder) THEN {"hup"} ELSE {})

(* _process(fileno = n, event = rev) of Poll / EPoll; holder = open object at n (0: none) *)
Process(kd, k, acc, n, holder, rev) ==
  LET s == acc[1]
      obj == s.kmap[n]
      drop(t) == LET u == BaseDiscard(t, obj)
                 IN [u EXCEPT !.kmap = [@ EXCEPT ![n] = 0],
                              !.kmask = [@ EXCEPT ![n] = {}],
                              !.emask = [x \in Obj |-> IF x = holder THEN {} ELSE @[x]]]
  IN IF rev = {} \/ obj = 0 THEN acc
     ELSE IF kd = "pollfix" /\ obj # holder /\ obj \notin k.ints THEN
        <<drop(s), acc[2]>>        \* stale entry: the object was closed, the number is nobody's or somebody else's
                                   \* (_isStale cannot tell for a plain int)
     ELSE IF rev \cap {"hup", "nval"} # {} /\ "in" \notin rev THEN
        <<drop(s), acc[2] \cup {<<"disconnect", obj, GetTarget(s, obj)>>}>>
     ELSE <<s, acc[2] \cup (IF "in" \in rev THEN {<<"read", obj, GetTarget(s, obj)>>} ELSE {})
                      \cup (IF "out" \in rev THEN {<<"write", obj, GetTarget(s, obj)>>} ELSE {})>>

(* what the kernel reports for number n, handed to _process.  (TLC passes
   operator arguments by name: intermediate values are bound through singleton
   sets so that they are computed once.)                                     *)
OneNum(kd, k, acc, n) ==
  LET s == acc[1]
      h == Holder(k, n)
      m == IF IsPoll(kd) THEN s.kmask[n] ELSE IF h = 0 THEN {} ELSE s.emask[h]
  IN IF m = {} THEN acc
     ELSE CHOOSE res \in {Process(kd, k, acc, n, x[1], x[2]) : x \in {<<h, Revents(k, h, m)>>}} : TRUE

RECURSIVE PollFrom(_, _, _, _)
PollFrom(kd, k, acc, n) ==
  IF n > 4 THEN acc
  ELSE CHOOSE res \in {PollFrom(kd, k, a, n + 1) : a \in {OneNum(kd, k, acc, n)}} : TRUE

PollIter(kd, k, s) ==
  IF IsSelect(kd) THEN
     LET regd == s.rd \cup s.wr
     IN IF kd = "selectesc" /\ (regd \ k.open) \cap k.ints # {} THEN
           <<s, {<<"error", 0, "exception">>}>>      \* EBADF -> preen -> the probe's OSError escapes
        ELSE IF regd \ k.open # {} THEN <<DiscardAll(s, regd \ k.open), {}>>   \* ValueError / EBADF -> _preenDescriptors
        ELSE <<s, {<<"write", o, GetTarget(s, o)>> : o \in {x \in s.wr : Wrbl(k, x)}}
                  \cup {<<"read", o, GetTarget(s, o)>> : o \in {x \in s.rd : Rdbl(k, x)}}>>
  ELSE PollFrom(kd, k, <<s, {}>>, 1)

-----------------------------------------------------------------------------
Rank(K) == CASE K = "read" -> 1 [] K = "write" -> 2 [] K = "disconnect" -> 3 [] OTHER -> 4
EvSeq(p, evs) ==
  LET sq == SetToSortSeq(evs, LAMBDA e1, e2 : e1[2] * 10 + Rank(e1[1]) < e2[2] * 10 + Rank(e2[1]))
  IN [i \in 1..Len(sq) |-> Line(sq[i][1], p, sq[i][2], sq[i][3], 0, 0, 0, 0)]

RECURSIVE AckAll(_, _, _, _)
AckAll(kd, k, s, S) == IF S = {} THEN s
                       ELSE LET o == Lowest(S) IN AckAll(kd, k, Disc(kd, k, s, o), S \ {o})
AckLines(p, S) == LET sq == SetToSortSeq(S, LAMBDA x, y : x < y)
                  IN [i \in 1..Len(sq) |-> Line("discard", p, sq[i], "", 0, 0, 0, 0)]

OpLine(k, o) == Line(k, "", o, "", 0, 0, 0, 0)

(* one environment step h: the operation's lines, then one iteration *)
Step(h, oplines, k1a, s1a, erd1, ewr1, fault) ==
  /\ Len(hist) < MaxSteps
  /\ \E k1 \in {k1a} : \E s1 \in {s1a} : \E pr \in {PollIter(kind, k1, s1)} :
     LET p    == PName(kind)
         evs  == pr[2]
         dcs  == {e[2] : e \in {x \in evs : x[1] = "disconnect"}}
         nh   == {o \in k1.open : ~Hup(k1, o)}
     IN \E lines \in {oplines
               \o <<Line("poll", p, 0, "", MaskOf({o \in k1.open : Rdbl(k1, o)}),
                         MaskOf({o \in k1.open : Wrbl(k1, o)}), MaskOf({o \in k1.open : Hup(k1, o)}),
                         MaskOf({o \in k1.open : k1.inq[o] > 0}))>>
               \o EvSeq(p, evs) \o <<Line("endpoll", p, 0, "", 0, 0, 0, 0)>>
               \o AckLines(p, dcs) \o <<Line("endstep", "", 0, "", 0, 0, 0, 0)>>} :
        \E r \in {IF Monitor THEN Run(P, lines, bad) ELSE <<P, bad>>} :
          /\ hist' = Append(hist, h)
          /\ ks' = k1 /\ ps' = AckAll(kind, k1, pr[1], dcs) /\ erd' = erd1 /\ ewr' = ewr1 /\ UNCHANGED kind
          /\ P' = r[1] /\ bad' = r[2] /\ out' = lines
          /\ lastev' = evs
          /\ lastcore' = {e \in evs : e[1] \in {"read", "write"} /\ e[2] \in nh}
          /\ lastexp' = {<<"read", o, Chan(o)>> : o \in {x \in erd1 \cap nh : Rdbl(k1, x)}}
                        \cup {<<"write", o, Chan(o)>> : o \in {x \in ewr1 \cap nh : Wrbl(k1, x)}}
          /\ lastexc' = fault

Init == /\ kind \in Kinds /\ ks = K0 /\ ps = S0 /\ erd = {} /\ ewr = {}
        /\ hist = <<>> /\ lastev = {} /\ lastcore = {} /\ lastexp = {} /\ lastexc = FALSE
        /\ LET lines == <<Line("open", "", 1, "", 1, 0, 0, 0), Line("open", "", 2, "", 2, 0, 0, 0)>>
               r == Run(P0, lines, "")
           IN P = (IF Monitor THEN r[1] ELSE [off |-> TRUE]) /\ bad = r[2] /\ out = lines

(* i: register by number.  The line says so in field a (information only).
   first: this operation may be the one that decides (only addReader does, to
   keep the number of histories down; addWriter follows the decision taken). *)
HowOK(o, i, first) == IF i THEN o \in IntCapable /\ o \notin ks.objs /\ (first \/ o \in ks.ints)
                      ELSE o \notin ks.ints
How(k, o, i) == IF i THEN [k EXCEPT !.ints = @ \cup {o}]
                ELSE IF o \in IntCapable THEN [k EXCEPT !.objs = @ \cup {o}] ELSE k   \* (only where there is a choice)
AddReader(o, i) ==
  /\ o \in RegObj \cap ks.open /\ o \notin erd /\ HowOK(o, i, TRUE)
  /\ LET k1 == How(ks, o, i)
     IN Step(<<IF i THEN "addri" ELSE "addr", o>>, <<Line("addr", "", o, Chan(o), IF i THEN 1 ELSE 0, 0, 0, 0)>>,
             k1, AddR(kind, k1, ps, o), erd \cup {o}, ewr, FALSE)
AddWriter(o, i) ==
  /\ o \in RegObj \cap ks.open /\ o \notin ewr /\ HowOK(o, i, FALSE)
  /\ LET k1 == How(ks, o, i)
     IN Step(<<IF i THEN "addwi" ELSE "addw", o>>, <<Line("addw", "", o, Chan(o), IF i THEN 1 ELSE 0, 0, 0, 0)>>,
             k1, AddW(kind, k1, ps, o), erd, ewr \cup {o}, FALSE)
(* a descriptor registered by number was closed and is still registered (environment's view) *)
DeadInt == \E o \in ks.ints : o \notin ks.open /\ o \in erd \cup ewr
RemoveReader(o) ==
  /\ o \in erd \cap ks.open
  /\ Step(<<"remr", o>>, <<OpLine("remr", o)>>, ks, RemR(kind, ks, ps, o), erd \ {o}, ewr, FALSE)
RemoveWriter(o) ==
  /\ o \in ewr \cap ks.open
  /\ Step(<<"remw", o>>, <<OpLine("remw", o)>>, ks, RemW(kind, ks, ps, o), erd, ewr \ {o}, FALSE)
Discard(o) ==          \* also the late discard of an object closed while registered
  /\ o \in erd \cup ewr
  /\ Step(<<"discard", o>>, <<OpLine("discard", o)>>, ks, Disc(kind, ks, ps, o), erd \ {o}, ewr \ {o}, FALSE)

Send(o) ==             \* o writes one byte: its peer becomes readable
  /\ o \in ks.open /\ Peer(o) \in ks.open \cap RegObj /\ ks.inq[Peer(o)] = 0
  /\ Step(<<"send", o>>, <<OpLine("send", o)>>, [ks EXCEPT !.inq = [@ EXCEPT ![Peer(o)] = 1]], ps, erd, ewr, FALSE)
Drain(o) ==            \* o reads everything pending: its peer becomes writable again
  /\ o \in ks.open /\ ks.inq[o] > 0
  /\ Step(<<"drain", o>>, <<OpLine("drain", o)>>, [ks EXCEPT !.inq = [@ EXCEPT ![o] = 0]], ps, erd, ewr, FALSE)
Fill(o) ==             \* o writes until the kernel refuses: o is not writable
  /\ o \in ks.open \cap RegObj /\ Peer(o) \in ks.open /\ ks.inq[Peer(o)] < 2
  /\ Step(<<"fill", o>>, <<OpLine("fill", o)>>, [ks EXCEPT !.inq = [@ EXCEPT ![Peer(o)] = 2]], ps, erd, ewr, FALSE)

CloseWithoutDiscard(o) ==   \* for an unregistered o this is just the peer hanging up
  /\ o \in ks.open
  /\ Step(<<"close", o>>, <<OpLine("close", o)>>, KClose(ks, o), OnClose(ps, o), erd, ewr,
          o \in erd \cup ewr)
DiscardThenClose(o) ==
  /\ o \in ks.open /\ o \in erd \cup ewr
  /\ Step(<<"dclose", o>>, <<OpLine("discard", o), OpLine("close", o)>>, KClose(ks, o),
          OnClose(Disc(kind, ks, ps, o), o), erd \ {o}, ewr \ {o}, FALSE)
OpenLines(k) == <<Line("open", "", 3, "", k.fd[3], 0, 0, 0), Line("open", "", 4, "", k.fd[4], 0, 0, 0)>>
OpenB ==
  /\ BNew(ks) /\ ~DeadInt
  /\ LET k1 == KOpenB(ks) IN Step(<<"openb", 0>>, OpenLines(k1), k1, ps, erd, ewr, FALSE)
CloseReopen(o) ==      \* no iteration between the close and the open: 3 takes o's number
  /\ BNew(ks) /\ o \in ks.open /\ ~DeadInt /\ ~(o \in ks.ints /\ o \in erd \cup ewr)
  /\ LET k1 == KOpenB(KClose(ks, o))
     IN Step(<<"creopen", o>>, <<OpLine("close", o)>> \o OpenLines(k1), k1, OnClose(ps, o), erd, ewr,
             o \in erd \cup ewr)

Next == \/ \E o \in Obj : \/ \E i \in BOOLEAN : AddReader(o, i) \/ AddWriter(o, i)
                          \/ RemoveReader(o) \/ RemoveWriter(o)
                          \/ Discard(o) \/ Send(o) \/ Drain(o) \/ Fill(o)
                          \/ CloseWithoutDiscard(o) \/ DiscardThenClose(o) \/ CloseReopen(o)
        \/ OpenB

Spec == Init /\ [][Next]_vars

-----------------------------------------------------------------------------
TypeOK == /\ kind \in Kinds /\ ks.open \subseteq Obj /\ ps.rd \subseteq Obj /\ ps.wr \subseteq Obj
          /\ bad \in STRING /\ erd \subseteq Obj /\ ewr \subseteq Obj

(* C10 as the monitor's verdict on every behaviour of the model.  The defect
   generators are exempt here and must reach bad # "" (checked by the driver
   on the state dump, and by TLC itself with ConformsAll in
   MC_Poller_stale.cfg / MC_Poller_preen.cfg). *)
Conforms == kind \in Generators \/ bad = ""
ConformsAll == bad = ""

(* C10 stated directly on the model (independent of the monitor), against the
   environment's own view of what it registered: outside the recovery
   iteration, the events for open, not hung-up objects are exactly the
   registered-and-ready ones, addressed to the registering channel *)
PollExact == kind = "selectesc" \/ lastexc \/ lastcore = lastexp
(* nothing but the one _disconnect for a closed object *)
NoGhost == kind \in Generators \/ \A e \in lastev : e[2] \in ks.open \/ e[1] = "disconnect"
(* the kernel registration mirrors the interest lists for every live registered object *)
Mirror == \A o \in ks.open \cap (ps.rd \cup ps.wr) :
             /\ ps.tgt[o] = Chan(o)
             /\ IsPoll(kind) => ps.kmask[ks.fd[o]] = Mask(ps, o) /\ ps.kmap[ks.fd[o]] = o
             /\ kind = "epoll" => ps.emask[o] = Mask(ps, o) /\ ps.kmap[ks.fd[o]] = o
Unregistered == \A o \in ks.open \ (ps.rd \cup ps.wr) : kind = "epoll" => ps.emask[o] = {}

View == <<kind, ks, ps, erd, ewr, P, bad, Len(hist), lastcore, lastexp, lastexc, lastev>>
(* with MaxSteps = NoBound the reachable state space is still finite (every
   pair is opened once, the bookkeeping is bounded): histories of any length *)
NoBound == 1000000
FullView == <<kind, ks, ps, erd, ewr, P, bad, lastcore, lastexp, lastexc, lastev>>
=============================================================================
