---------------------------- MODULE KernelTrace ----------------------------
(* Trace specification for the kernel properties: runs the monitor of
   KernelOps over traces recorded from the real circuits.core classes by
   harness/universe.py.  A trace is [cfg |-> G, lines |-> <<...>>].  One
   initial state per trace, one step per line, total verdict (first failing
   clause per property).                                                     *)
EXTENDS KernelOps, Json, IOUtils, TLC

Traces == JsonDeserialize(IOEnv.TRACE_FILE)

VARIABLES tid, l, S, bad
vars == <<tid, l, S, bad>>

Init == /\ tid \in 1..Len(Traces) /\ l = 1 /\ S = S0(Traces[tid].cfg) /\ bad = Bad0

Next == /\ l <= Len(Traces[tid].lines)
        /\ LET G  == Traces[tid].cfg
               ln == Traces[tid].lines[l]
           IN /\ bad' = UpdBad(bad, Fails(G, S, ln), l)
              /\ S' = Apply(G, S, ln)
        /\ l' = l + 1
        /\ UNCHANGED tid

Spec == Init /\ [][Next]_vars

BadSeq == << <<"C01", bad["C01"]>>, <<"C02", bad["C02"]>>, <<"C04", bad["C04"]>>, <<"C05", bad["C05"]>>,
             <<"C06", bad["C06"]>>, <<"C07", bad["C07"]>>, <<"C08", bad["C08"]>>, <<"M", bad["M"]>> >>
Report == (l = Len(Traces[tid].lines) + 1) => PrintT(<<"VERDICT", tid, BadSeq, 0>>)
=============================================================================
