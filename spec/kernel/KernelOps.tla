----------------------------- MODULE KernelOps -----------------------------
(* The kernel properties C01, C02, C04, C05, C06, C07 as ONE monitor over the
   trace lines written by harness/universe.py (see its docstring for the line
   format).  The generative model Kernel.tla emits the same lines and is
   checked against this monitor; KernelTrace.tla runs it over traces recorded
   from the real circuits.core classes.

   Static program information (per trace):
     G.chan[c]   channel of component c          G.inst[c]  its instance channel name "#c"
     G.H[h]      [comp, names (sequence), chan ("" = component's channel), prio (rank)]
     G.live0     sequence of handler ids installed initially

   Monitor state S: see S0.  Fails(G, S, ln) is the set of clauses <<property,
   name>> the line violates; Apply(G, S, ln) the next monitor state.          *)
EXTENDS Integers, Sequences, FiniteSets

Range(s) == { s[i] : i \in DOMAIN s }
Max(a, b) == IF a > b THEN a ELSE b
Force(s) == SubSeq(s, 1, Len(s))      \* evaluate a lazily built sequence once

NoPrio == 1000      \* "no handler has stopped the event yet" / "no handler ran yet"

Ev0 == [name |-> "", ch |-> "", prio |-> 0, fseq |-> 0, root |-> 0, origin |-> 0, flags |-> 0,
        ref |-> 0, kind |-> 0, ca |-> 0, cb |-> 0, cancelled |-> FALSE,
        st |-> 0,                 \* 0 queued, 2 dispatching, 3 handler loop done
        expect |-> {}, slack |-> {}, ran |-> {}, stopPrio |-> NoPrio, lastPrio |-> NoPrio,
        results |-> <<>>, nraise |-> 0, gens |-> 0, ngen |-> 0,
        nsucc |-> 0, nfail |-> 0, nexc |-> 0, ncompl |-> 0, ndone |-> 0,
        disproot |-> 0, skipped |-> FALSE, proj |-> <<>>,
        multi |-> FALSE,          \* fired on several channels: delivered once per channel, outside C01's single-channel reading
        mig |-> <<>>]             \* ids of the register() operations that moved the event to another queue

S0(G) == [par    |-> [c \in 1..Len(G.chan) |-> c],
          pend   |-> {},
          live   |-> Range(G.live0),
          ev     |-> <<>>,
          q      |-> [c \in 1..Len(G.chan) |-> <<>>],   \* fired, not yet in a pass
          batch  |-> [c \in 1..Len(G.chan) |-> {}],     \* rest of the pass in progress
          stk    |-> <<>>,                              \* active handler segments <<e, h>>
          nf     |-> 0,                                 \* fire counter (FIFO order)
          nflush |-> 0,                                 \* explicit flush ops executed by handlers
          nreg   |-> {},                                \* registrations performed: <<c, p, k>>
          nunreg |-> {},                                \* unregistrations completed: <<c, p, k>>
          structops |-> 0,
          raised |-> FALSE,
          run    |-> [active |-> FALSE, c |-> 0, nstarted |-> 0, nstopped |-> 0, stopreq |-> FALSE, code |-> -1, n |-> 0],
          waits  |-> {},                                \* suspended activations [e, h, on, byname, name, tmo, ticks]
          ticks  |-> 0]

-----------------------------------------------------------------------------
(* structure *)
RECURSIVE RootOf(_, _, _)
RootOf(par, x, n) == IF par[x] = x \/ n = 0 THEN x ELSE RootOf(par, par[x], n - 1)
Root(S, x) == RootOf(S.par, x, Len(S.par))

RECURSIVE InSubtree(_, _, _, _)
InSubtree(par, x, top, n) == IF x = top THEN TRUE
                             ELSE IF par[x] = x \/ n = 0 THEN FALSE
                             ELSE InSubtree(par, par[x], top, n - 1)

HChan(G, h) == IF G.H[h].chan = "" THEN G.chan[G.H[h].comp] ELSE G.H[h].chan
Declared(G, h, name) == Len(G.H[h].names) = 0 \/ name \in Range(G.H[h].names)
Listens(G, h, ch) == LET hc == HChan(G, h) IN
                     ch = "*" \/ hc = "*" \/ hc = ch \/ ch = G.inst[G.H[h].comp]
(* handlers that must receive an event with this name and channel when manager r dispatches it *)
Matching(G, S, r, name, ch) ==
  { h \in S.live : Root(S, G.H[h].comp) = r /\ Declared(G, h, name) /\ Listens(G, h, ch) }

Dispatching(S) == { e \in DOMAIN S.ev : S.ev[e].st = 2 }

(* after a structural change, handlers whose matching status changed for an
   event that is in the middle of its dispatch may or may not still run *)
Reslack(G, S0_, S1) ==
  [S1 EXCEPT !.ev = Force([e \in DOMAIN S1.ev |->
      IF S1.ev[e].st = 2
      THEN LET r  == S1.ev[e].disproot
               m0 == Matching(G, S0_, r, S1.ev[e].name, S1.ev[e].ch)
               m1 == Matching(G, S1, r, S1.ev[e].name, S1.ev[e].ch)
           IN [S1.ev[e] EXCEPT !.slack = @ \cup ((m0 \ m1) \cup (m1 \ m0))]
      ELSE S1.ev[e]]),
     !.structops = @ + 1]

-----------------------------------------------------------------------------
(* event bookkeeping *)
Known(S, e) == e \in DOMAIN S.ev
Finished(S, e) == S.ev[e].st = 3 /\ S.ev[e].gens = 0
Drained(S, e) == Finished(S, e) \/ (S.ev[e].cancelled /\ S.ev[e].st = 0) \/ S.ev[e].skipped
IsProgramFired(S, e) == S.ev[e].kind = 0

(* causal closure of x: x and every event fired (transitively) from a handler
   segment of an event of the closure; manager-generated feedback events
   (success, failure, complete, done, exception, value_changed) and what their
   handlers fire are not part of it                                          *)
RECURSIVE ClosureFrom(_, _, _)
ClosureFrom(S, front, acc) ==
  LET nxt == { e \in DOMAIN S.ev : S.ev[e].origin \in front /\ S.ev[e].kind \notin {1, 2, 3, 4, 5, 6}
                                    /\ e \notin acc }
  IN IF nxt = {} THEN acc ELSE ClosureFrom(S, nxt, acc \cup nxt)
Closure(S, x) == ClosureFrom(S, {x}, {x})

(* a may be dispatched before b: lower priority value first; equal priority in firing order.
   Events that were moved into this queue by a register() are ordered among themselves, but
   the properties do not say how they interleave with events fired on the new root itself. *)
Before(S, a, b) == \/ S.ev[a].prio < S.ev[b].prio
                   \/ S.ev[a].prio = S.ev[b].prio /\ S.ev[a].fseq <= S.ev[b].fseq
                   \/ S.ev[a].prio = S.ev[b].prio /\ S.ev[a].mig # S.ev[b].mig

-----------------------------------------------------------------------------
(* structural operations, shared by api lines (driver) and op lines (scripts) *)
DoReg(G, S, c, p) ==
  LET r  == Root(S, p)
      S1 == [S EXCEPT !.par[c] = p,
                      !.ev = IF r = c THEN @ ELSE Force([e \in DOMAIN S.ev |->
                                 IF e \in Range(S.q[c]) THEN [S.ev[e] EXCEPT !.mig = Append(@, S.structops + 1)] ELSE S.ev[e]]),
                      !.q[r] = IF r = c THEN @ ELSE @ \o S.q[c],
                      !.q[c] = IF r = c THEN @ ELSE <<>>,
                      !.nreg = @ \cup {<<c, p, Cardinality({t \in S.nreg : t[1] = c /\ t[2] = p}) + 1>>}]
  IN Reslack(G, S, S1)
DoUnreg(G, S, c) ==
  IF S.par[c] = c \/ c \in S.pend THEN S ELSE [S EXCEPT !.pend = @ \cup {c}]
DoAddH(G, S, h) == Reslack(G, S, [S EXCEPT !.live = @ \cup {h}])
DoRmH(G, S, h) == Reslack(G, S, [S EXCEPT !.live = @ \ {h}])
(* completion of an unregistration: the component leaves its tree *)
DoDetach(G, S, c) ==
  IF S.par[c] = c THEN [S EXCEPT !.pend = @ \ {c}]
  ELSE Reslack(G, S, [S EXCEPT !.par[c] = c, !.pend = @ \ {c},
                               !.nunreg = @ \cup {<<c, S.par[c], Cardinality({t \in S.nunreg : t[1] = c}) + 1>>}])

StructOp(G, S, ln) ==
  CASE ln.n = "reg"   -> DoReg(G, S, ln.c, ln.x)
    [] ln.n = "unreg" -> DoUnreg(G, S, ln.c)
    [] ln.n = "addh"  -> DoAddH(G, S, ln.x)
    [] ln.n = "rmh"   -> DoRmH(G, S, ln.x)
    [] OTHER -> S

-----------------------------------------------------------------------------
(* clauses, per line kind *)
FireFails(G, S, ln) ==
  LET x == ln.x IN
  (IF ln.e # Len(S.ev) + 1 THEN {<<"M", "eid_order">>} ELSE {})
  \cup
  (IF ln.n = "stopped" /\ ~S.run.active THEN {<<"C08", "idle_stop">>} ELSE {})
  \cup
  (IF ln.y \in {1, 2, 3} /\ ~Known(S, x) THEN {<<"M", "unknown_ref">>}
   ELSE IF ln.y = 1 THEN   \* <name>_success
     (IF S.ev[x].flags % 2 = 0 THEN {<<"C04", "success_unrequested">>} ELSE {})
     \cup (IF S.ev[x].nsucc >= 1 THEN {<<"C04", "success_twice">>} ELSE {})
     \cup (IF S.ev[x].nraise > 0 THEN {<<"C04", "success_after_error">>} ELSE {})
     \cup (IF ~Finished(S, x) THEN {<<"C04", "success_early">>} ELSE {})
   ELSE IF ln.y = 2 THEN   \* <name>_failure
     (IF (S.ev[x].flags \div 2) % 2 = 0 THEN {<<"C04", "failure_unrequested">>} ELSE {})
     \cup (IF S.ev[x].nfail >= S.ev[x].nraise + (IF S.raised THEN 1 ELSE 0) THEN {<<"C04", "failure_count">>} ELSE {})
   ELSE IF ln.y = 3 THEN   \* <name>_complete
     (IF (S.ev[x].flags \div 4) % 2 = 0 THEN {<<"C05", "unrequested">>} ELSE {})
     \cup (IF S.ev[x].ncompl >= 1 THEN {<<"C05", "twice">>} ELSE {})
     \cup (IF \E d \in Closure(S, x) : ~Drained(S, d) THEN {<<"C05", "early">>} ELSE {})
   ELSE IF ln.y = 5 /\ Known(S, x) THEN   \* exception
     (IF ln.d % 100 = 1      \* not a raise of the program: circuits' own code failed while handling x
      THEN {<<IF S.ev[x].ngen > 0 \/ S.waits # {} THEN "C06" ELSE "C04", "internal_error">>}
      ELSE IF S.ev[x].nexc >= S.ev[x].nraise + (IF S.raised THEN 1 ELSE 0) THEN {<<"C04", "exc_count">>} ELSE {})
   ELSE {})

DispFails(G, S, ln) ==
  LET e == ln.e
      c == ln.c
      newpass == S.batch[c] = {}
      b == IF newpass THEN Range(S.q[c]) ELSE S.batch[c]
  IN
  IF ~Known(S, e) THEN {<<"M", "unknown_event">>}
  ELSE
  (IF S.ev[e].st # 0
   THEN {<<"C02", "dispatched_twice">>} \cup
        (IF S.ev[e].mig # <<>> THEN {<<"C07", "duplicate_dispatch">>} ELSE {})   \* a queue migration left a copy behind
   ELSE IF e \notin b THEN
        (IF e \in Range(S.q[c]) THEN {<<"C02", "pass">>}            \* fired during this pass
         ELSE {<<"C07", "wrong_root">>})                            \* dispatched by a manager that does not own it
   ELSE IF \E e2 \in b : ~Before(S, e, e2) THEN {<<"C02", "order">>}
   ELSE {})
  \cup
  (IF S.stk # <<>> /\ S.nflush = 0 THEN {<<"C02", "reentrant">>} ELSE {})

InvFails(G, S, ln) ==
  LET e == ln.e
      h == ln.h
  IN
  IF ~Known(S, e) THEN {<<"M", "unknown_event">>}
  ELSE IF S.ev[e].st # 2 THEN {<<"C01", "outside_dispatch">>}
  ELSE
  (IF h \in S.ev[e].ran /\ ~S.ev[e].multi THEN {<<"C01", "twice">>} ELSE {})
  \cup
  (IF h \notin S.ev[e].expect /\ h \notin S.ev[e].slack /\ ~S.ev[e].multi
   THEN (IF Root(S, G.H[h].comp) # S.ev[e].disproot
         THEN {<<"C07", "after_detach">>, <<"C01", "extra">>}     \* not in the dispatching tree (any more): both properties say so
         ELSE {<<"C01", "extra">>})
   ELSE {})
  \cup
  (IF S.ev[e].lastPrio # NoPrio /\ G.H[h].prio > S.ev[e].lastPrio THEN {<<"C02", "hprio">>} ELSE {})
  \cup
  (IF S.ev[e].stopPrio # NoPrio /\ G.H[h].prio < S.ev[e].stopPrio THEN {<<"C02", "stop">>} ELSE {})

DendFails(G, S, ln) ==
  LET e == ln.e IN
  IF ~Known(S, e) THEN {<<"M", "unknown_event">>}
  ELSE LET must == { h \in S.ev[e].expect \ S.ev[e].slack :
                      S.ev[e].stopPrio = NoPrio \/ G.H[h].prio > S.ev[e].stopPrio }
       IN (IF ln.f = 1 /\ S.ev[e].stopPrio = NoPrio THEN {}       \* stopped by a handler outside the program
           ELSE IF S.ev[e].multi THEN {}
           ELSE IF must \ S.ev[e].ran # {} THEN {<<"C01", "missing">>} ELSE {})

(* value projection: the items logged so far for e are in S.ev[e].proj *)
ProjFails(G, S, ln) ==
  (IF ln.f # 1 \/ ln.x # S.par[ln.c] THEN {<<"C07", "links">>} ELSE {})
  \cup (IF ln.y # Root(S, ln.c) THEN {<<"C07", "root">>} ELSE {})
  \cup (IF (ln.v = 1) # (ln.c \in S.pend) THEN {<<"C07", "pending_flag">>} ELSE {})

QuietFails(G, S, ln) ==
  IF ln.f = 1 THEN {}      \* event budget hit: the trace is not judged at quiescence
  ELSE
  LET E == DOMAIN S.ev IN
  (IF \E e \in E : S.ev[e].st = 0 /\ ~S.ev[e].cancelled
   THEN {<<IF S.structops > 0 THEN "C07" ELSE IF S.raised THEN "C04" ELSE "C02", "never_dispatched">>} ELSE {})
  \cup (IF \E e \in E : S.ev[e].st = 3 /\ (S.ev[e].flags \div 4) % 2 = 1 /\ S.ev[e].ncompl = 0
        THEN {<<"C05", "never">>} ELSE {})
  \cup (IF \E e \in E : Finished(S, e) /\ S.ev[e].flags % 2 = 1 /\ S.ev[e].nraise = 0 /\ S.ev[e].nsucc = 0
        THEN {<<"C04", "success_never">>} ELSE {})
  \cup (IF \E e \in E : S.ev[e].st = 3 /\ S.ev[e].gens > 0
        THEN {<<IF S.waits # {} THEN "C06" ELSE "C04", "never_finished">>} ELSE {})
  \cup (IF \E e \in E : S.ev[e].nexc # S.ev[e].nraise THEN {<<"C04", "exc_count">>} ELSE {})
  \cup (IF \E e \in E : S.ev[e].nfail # (IF (S.ev[e].flags \div 2) % 2 = 1 THEN S.ev[e].nraise ELSE 0)
        THEN {<<"C04", "failure_count">>} ELSE {})
  \cup (IF ln.v > 0 \/ ln.x > 0 THEN {<<"C06", "residue">>} ELSE {})
  \cup (IF S.waits # {} THEN {<<"C06", "never_resumed">>} ELSE {})
  \cup (IF \E t \in S.nreg : Cardinality({e \in E : S.ev[e].kind = 7 /\ S.ev[e].ca = t[1] /\ S.ev[e].cb = t[2]})
                              # Cardinality({u \in S.nreg : u[1] = t[1] /\ u[2] = t[2]})
        THEN {<<"C07", "announce_registered">>} ELSE {})
  \cup (IF \E t \in S.nunreg : Cardinality({e \in E : S.ev[e].kind = 8 /\ S.ev[e].ca = t[1]})
                                # Cardinality({u \in S.nunreg : u[1] = t[1]})
        THEN {<<"C07", "announce_unregistered">>} ELSE {})
  \* an unregistration that never completes (unregister(parent), unregister(child) before a tick:
  \* the child's completion event is addressed to a tree it has left) is a liveness matter the
  \* property does not state; it is not flagged.

VendFails(G, S, ln) ==
  LET e == ln.e IN
  IF ~Known(S, e) THEN {<<"M", "unknown_event">>}
  ELSE IF ~Finished(S, e) THEN {}        \* judged only for finished events
  ELSE (IF S.ev[e].proj # S.ev[e].results THEN {<<"C04", "value">>} ELSE {})
       \cup (IF (ln.f = 1) # (S.ev[e].nraise > 0) THEN {<<"C04", "errors_flag">>} ELSE {})
       \cup (IF (ln.x = 1) # (Len(S.ev[e].results) > 1) THEN {<<"C04", "value_shape">>} ELSE {})

(* run() / stop(): the line `runret` is written when run() has returned to its caller:
   x = 0 normal return, 1 SystemExit; v = exit code (-1 none, -2 not an int); d = events still
   queued; f = 1 if the manager still claims to be running *)
RunretFails(G, S, ln) ==
  (IF S.run.nstarted # 1 THEN {<<"C08", "started">>} ELSE {})
  \cup (IF S.run.nstopped # 1 THEN {<<"C08", "stopped">>} ELSE {})
  \cup (IF ln.d > 0 \/ \E e \in DOMAIN S.ev : S.ev[e].st = 0 /\ ~S.ev[e].cancelled THEN {<<"C08", "undrained">>} ELSE {})
  \cup (IF ~S.run.stopreq THEN {<<"C08", "return_without_stop">>} ELSE {})
  \cup (IF S.run.stopreq /\ S.run.code = -1 /\ ln.x # 0 /\ ln.v # -1 THEN {<<"C08", "code">>}
        ELSE IF S.run.stopreq /\ S.run.code # -1 /\ (ln.x # 1 \/ ln.v # S.run.code) THEN {<<"C08", "code">>} ELSE {})
  \cup (IF ln.f = 1 THEN {<<"C08", "still_running">>} ELSE {})

(* call / wait *)
RECURSIVE SumSeq(_)
SumSeq(s) == IF s = <<>> THEN 0 ELSE Head(s) + SumSeq(Tail(s))
ValId(res) == IF Len(res) = 0 THEN 0 ELSE IF Len(res) = 1 THEN res[1] ELSE SumSeq(res) * 1000 + Len(res)
WaitOf(S, e, h) == { w \in S.waits : w.e = e /\ w.h = h }
ResumeFails(G, S, ln) ==
  LET ws == WaitOf(S, ln.e, ln.h) IN
  IF ws = {} THEN {<<"C06", "resume_without_wait">>}
  ELSE LET w == CHOOSE w \in ws : TRUE
           on == IF w.on # 0 THEN w.on ELSE ln.x IN
       IF ln.f = 2 THEN      \* TimeoutError
            (IF w.tmo < 0 THEN {<<"C06", "timeout_unrequested">>}
             ELSE IF S.ticks - w.t0 < w.tmo THEN {<<"C06", "timeout_early">>} ELSE {})
       ELSE IF on = 0 \/ ~Known(S, on) THEN {}
       ELSE (IF ~Finished(S, on) /\ S.ev[on].nraise = 0 THEN {<<"C06", "resume_early">>} ELSE {})
            \cup (IF Finished(S, on) /\ (ln.f = 1) # (S.ev[on].nraise > 0) THEN {<<"C06", "error_flag">>} ELSE {})
            \cup (IF Finished(S, on) /\ ln.x # 0 /\ ln.v # ValId(S.ev[on].results) THEN {<<"C06", "value">>} ELSE {})

Fails(G, S, ln) ==
  CASE ln.k = "fire"   -> FireFails(G, S, ln)
    [] ln.k = "disp"   -> DispFails(G, S, ln)
    [] ln.k = "inv"    -> InvFails(G, S, ln)
    [] ln.k = "dend"   -> DendFails(G, S, ln)
    [] ln.k = "proj"   -> ProjFails(G, S, ln)
    [] ln.k = "vend"   -> VendFails(G, S, ln)
    [] ln.k = "quiet"  -> QuietFails(G, S, ln)
    [] ln.k = "resume" -> ResumeFails(G, S, ln)
    [] ln.k = "runret" -> IF S.run.active THEN RunretFails(G, S, ln) ELSE {<<"M", "runret_without_run">>}
    [] ln.k = "escape" ->
         \* an exception left flush() / tick() / run(): the loop did not survive a handler (C04); x = 1: the
         \* exception came from circuits' own code.  SystemExit leaving run() is reported by runret, not here.
         IF ln.n = "SystemExit" /\ S.run.active THEN {}
         ELSE {<<"C04", "escaped">>} \cup (IF S.waits # {} THEN {<<"C06", "escaped">>} ELSE {})
                                     \cup (IF S.run.n > 0 THEN {<<"C08", "escaped">>} ELSE {})
    [] ln.k = "yld"    -> IF ln.f = 1 /\ WaitOf(S, ln.e, ln.h) # {} THEN {<<"C06", "double_suspend">>} ELSE {}
    [] OTHER -> {}

-----------------------------------------------------------------------------
(* state update *)
Pop(stk) == IF stk = <<>> THEN stk ELSE SubSeq(stk, 1, Len(stk) - 1)
EvUpd(S, e, f(_)) == IF Known(S, e) THEN [S EXCEPT !.ev[e] = f(@)] ELSE S

ApplyFire(G, S, ln) ==
  LET rec == [Ev0 EXCEPT !.name = ln.n, !.ch = ln.ch, !.prio = ln.p, !.fseq = S.nf + 1, !.root = ln.c,
                         !.origin = ln.o, !.flags = ln.f, !.ref = ln.x, !.kind = ln.y,
                         !.ca = ln.v, !.cb = ln.d % 100, !.multi = ln.d >= 100]
      S1 == [S EXCEPT !.ev = Append(@, rec), !.nf = @ + 1,
                      !.q[ln.c] = Append(@, Len(S.ev) + 1)]
      x == ln.x
  IN IF ~Known(S, x) THEN S1
     ELSE CASE ln.y = 1 -> [S1 EXCEPT !.ev[x].nsucc = @ + 1]
            [] ln.y = 2 -> [S1 EXCEPT !.ev[x].nfail = @ + 1]
            [] ln.y = 3 -> [S1 EXCEPT !.ev[x].ncompl = @ + 1]
            [] ln.y = 4 -> [S1 EXCEPT !.ev[x].ndone = @ + 1]
            [] ln.y = 5 -> IF ln.d % 100 = 1
                           THEN [S1 EXCEPT !.ev[x].nexc = @ + 1, !.ev[x].nraise = @ + 1, !.ev[x].results = Append(@, -1),
                                           !.ev[x].gens = IF @ > 0 THEN @ - 1 ELSE @, !.raised = TRUE]
                           ELSE [S1 EXCEPT !.ev[x].nexc = @ + 1]
            [] OTHER -> S1

ApplyDisp(G, S, ln) ==
  LET e == ln.e
      c == ln.c
  IN IF ~Known(S, e) THEN S
     ELSE LET newpass == S.batch[c] = {}
              b  == IF newpass THEN Range(S.q[c]) ELSE S.batch[c]
              S1 == [S EXCEPT !.batch[c] = b \ {e},
                              !.q[c] = IF newpass THEN <<>> ELSE @]
              S2 == IF S.ev[e].name = "generate_events" THEN [S1 EXCEPT !.ticks = @ + 1]
                    ELSE IF S.ev[e].name = "started" /\ S.run.active THEN [S1 EXCEPT !.run.nstarted = @ + 1]
                    ELSE IF S.ev[e].name = "stopped" /\ S.run.active THEN [S1 EXCEPT !.run.nstopped = @ + 1]
                    ELSE S1
          IN IF ln.f = 1 THEN [S1 EXCEPT !.ev[e].skipped = TRUE, !.ev[e].cancelled = TRUE]
             ELSE [S2 EXCEPT !.ev[e].st = 2, !.ev[e].disproot = c,
                             !.ev[e].expect = Matching(G, S, c, S.ev[e].name, S.ev[e].ch)]

ApplyDend(G, S, ln) ==
  LET e == ln.e IN
  IF ~Known(S, e) THEN S
  ELSE LET S1 == [S EXCEPT !.ev[e].st = 3]
       IN IF S.ev[e].kind = 3 /\ Known(S, S.ev[e].ref) /\ S.ev[S.ev[e].ref].kind = 9
             /\ S.ev[S.ev[e].ref].ca \in S.pend
             /\ Root(S, S.ev[S.ev[e].ref].ca) = S.ev[e].disproot    \* the component is still in the dispatching tree
          THEN DoDetach(G, S1, S.ev[S.ev[e].ref].ca)      \* prepare_unregister_complete handled by the component
          ELSE S1

ApplyRet(G, S, ln) ==
  LET e == ln.e
      S1 == [S EXCEPT !.stk = Pop(@)]
  IN IF ~Known(S, e) THEN S1
     ELSE CASE ln.f = 0 -> IF ln.v # 0 THEN [S1 EXCEPT !.ev[e].results = Append(@, ln.v)] ELSE S1
            [] ln.f = 1 -> IF ln.x = 0
                           THEN [S1 EXCEPT !.ev[e].results = Append(@, -1), !.ev[e].nraise = @ + 1, !.raised = TRUE]
                           ELSE S1          \* SystemExit / KeyboardInterrupt: not an error result
            [] ln.f = 2 -> [S1 EXCEPT !.ev[e].gens = @ + 1, !.ev[e].ngen = @ + 1]
            [] OTHER -> S1

ApplyOp(G, S, ln) ==
  LET e == ln.e IN
  CASE ln.n = "stop"   -> EvUpd(S, e, LAMBDA r : [r EXCEPT !.stopPrio = IF @ = NoPrio THEN G.H[ln.h].prio ELSE @])
    [] ln.n = "cancel" -> IF Known(S, ln.x) /\ S.ev[ln.x].st = 0 THEN [S EXCEPT !.ev[ln.x].cancelled = TRUE] ELSE S
    [] ln.n = "flush"  -> [S EXCEPT !.nflush = @ + 1]
    [] ln.n \in {"reg", "unreg", "addh", "rmh"} -> StructOp(G, S, ln)
    [] ln.n \in {"stopmgr", "exit", "stop2", "kbint"} ->
         \* stop() called on a component that is not the running manager has no effect
         IF S.run.active /\ ~S.run.stopreq /\ (ln.n \in {"exit", "kbint"} \/ ln.c = S.run.c)
         THEN [S EXCEPT !.run.stopreq = TRUE, !.run.code = IF ln.n = "kbint" THEN -1 ELSE ln.x] ELSE S
    [] OTHER -> S

ApplyApi(G, S, ln) ==
  CASE ln.n \in {"reg", "unreg", "addh", "rmh"} -> StructOp(G, S, ln)
    [] ln.n = "cancel" -> IF Known(S, ln.e) /\ S.ev[ln.e].st = 0 THEN [S EXCEPT !.ev[ln.e].cancelled = TRUE] ELSE S
    [] ln.n = "run"    -> [S EXCEPT !.run = [active |-> TRUE, c |-> ln.c, nstarted |-> 0, nstopped |-> 0, stopreq |-> FALSE,
                                             code |-> -1, n |-> S.run.n + 1]]
    [] ln.n = "stop"   -> IF S.run.active /\ ~S.run.stopreq THEN [S EXCEPT !.run.stopreq = TRUE, !.run.code = ln.x] ELSE S
    [] OTHER -> S

ApplyYld(G, S, ln) ==
  LET e == ln.e
      S1 == [S EXCEPT !.stk = Pop(@)]
  IN IF ~Known(S, e) THEN S1
     ELSE IF ln.f = 1
          THEN [S1 EXCEPT !.waits = @ \cup {[e |-> e, h |-> ln.h, on |-> ln.x, tmo |-> ln.d, t0 |-> S.ticks]}]
          ELSE IF ln.v # 0 THEN [S1 EXCEPT !.ev[e].results = Append(@, ln.v)] ELSE S1

ApplyGend(G, S, ln) ==
  LET e == ln.e
      S1 == [S EXCEPT !.stk = Pop(@)]
  IN IF ~Known(S, e) THEN S1
     ELSE IF ln.f = 1
          THEN [S1 EXCEPT !.ev[e].gens = @ - 1, !.ev[e].results = Append(@, -1), !.ev[e].nraise = @ + 1, !.raised = TRUE]
          ELSE [S1 EXCEPT !.ev[e].gens = @ - 1]

Apply(G, S, ln) ==
  CASE ln.k = "fire"   -> ApplyFire(G, S, ln)
    [] ln.k = "disp"   -> ApplyDisp(G, S, ln)
    [] ln.k = "dend"   -> ApplyDend(G, S, ln)
    [] ln.k = "inv"    -> LET S1 == [S EXCEPT !.stk = Append(@, <<ln.e, ln.h>>)] IN
                          IF Known(S, ln.e)
                          THEN [S1 EXCEPT !.ev[ln.e].ran = @ \cup {ln.h}, !.ev[ln.e].lastPrio = G.H[ln.h].prio]
                          ELSE S1
    [] ln.k = "ret"    -> ApplyRet(G, S, ln)
    [] ln.k = "op"     -> ApplyOp(G, S, ln)
    [] ln.k = "api"    -> ApplyApi(G, S, ln)
    [] ln.k = "step"   -> [S EXCEPT !.stk = Append(@, <<ln.e, ln.h>>)]
    [] ln.k = "yld"    -> ApplyYld(G, S, ln)
    [] ln.k = "gend"   -> ApplyGend(G, S, ln)
    [] ln.k = "resume" -> [S EXCEPT !.waits = @ \ WaitOf(S, ln.e, ln.h)]
    [] ln.k = "vitem"  -> EvUpd(S, ln.e, LAMBDA r : [r EXCEPT !.proj = Append(@, ln.v)])
    [] ln.k = "runret" -> [S EXCEPT !.run.active = FALSE]
    [] OTHER -> S

(* first failing clause per property *)
(* NOTE for TLC: [x \in D |-> e] is evaluated lazily on every application; a chain of
   such constructors built while folding over lines re-evaluates exponentially.  Verdicts are
   therefore kept in a record (eager), and rebuilt sequences are forced with Force().        *)
Bad0 == [C01 |-> <<"", 0>>, C02 |-> <<"", 0>>, C04 |-> <<"", 0>>, C05 |-> <<"", 0>>,
         C06 |-> <<"", 0>>, C07 |-> <<"", 0>>, C08 |-> <<"", 0>>, M |-> <<"", 0>>]
Upd1(bad, fails, l, p) ==
  IF bad[p][1] # "" THEN bad[p]
  ELSE IF \E f \in fails : f[1] = p THEN <<(CHOOSE f \in fails : f[1] = p)[2], l>>
  ELSE bad[p]
UpdBad(bad, fails, l) ==
  IF fails = {} THEN bad
  ELSE [C01 |-> Upd1(bad, fails, l, "C01"), C02 |-> Upd1(bad, fails, l, "C02"), C04 |-> Upd1(bad, fails, l, "C04"),
        C05 |-> Upd1(bad, fails, l, "C05"), C06 |-> Upd1(bad, fails, l, "C06"), C07 |-> Upd1(bad, fails, l, "C07"),
        C08 |-> Upd1(bad, fails, l, "C08"), M |-> Upd1(bad, fails, l, "M")]
=============================================================================
