------------------------------- MODULE Kernel -------------------------------
(* Generative model of the circuits event kernel (circuits/core/manager.py,
   components.py, events.py, values.py): component forest, handler tables
   with the per-root handler cache, per-root event queue with priority
   passes, dispatch with handler priorities / stop / cancel, values and
   feedback events (_eventDone: done, success, failure, exception, complete
   via cause/effects counting), register / two-stage unregister.

   It is implementation-shaped: one action per critical section of the code,
   state named after the attributes it models.  Handler behaviour is static
   data (scripts), chosen with the program in Init.  Every action emits the
   trace lines harness/universe.py records from the real classes and feeds
   them to the monitor of KernelOps (properties C01, C02, C04, C05, C07);
   `Conforms` says the monitor never flags the model.  `hist` is the
   environment history a replay drives.

   Variants (constants) model the pinned code's known deviations so that TLC
   exhibits them; with all variants off the model is the intended algorithm:
     StaleCache      detaching a subtree does not invalidate the detached
                     component's own handler cache      (C01, pinned tree)
     CancelLeak      a cancelled event never decrements its cause's effects
                     counter                             (C05, pinned tree)   *)
EXTENDS KernelOps, TLC

CONSTANTS Programs,     \* sequence of programs (records), see harness/kernel.py
          StaleCache, CancelLeak,
          ExitDeferred, \* BOOLEAN.  FALSE: the pinned code - stop(code) raises SystemExit where it is called, which
                        \* abandons the batch when it comes from the dispatcher and is swallowed when it comes
                        \* from a handler.  TRUE: intended algorithm - the code is remembered, the loop drains
                        \* and dispatches `stopped`, run() raises SystemExit(code) at the end.
          StepUntracked,   \* BOOLEAN: pinned tree - events fired from later generator steps are not tracked for complete (C05)
          GenErrorHang,    \* BOOLEAN: pinned tree - a generator handler that raises in a later step never finishes its event (C06/C04)
          SuccessNoErr,    \* BOOLEAN: pinned tree - the final _eventDone after a generator forgets that a handler raised (C04)
          DetTasks,     \* BOOLEAN: tick() processes its task snapshot lowest generator first (history generation)
                        \* instead of in every order (the real order is that of a Python set)
          KeepOut,      \* BOOLEAN: keep every emitted line in K.out (history generation) or only count them
          RunMonitor    \* BOOLEAN: feed emitted lines to the KernelOps monitor (off for history generation)

VARIABLES K, hist
vars == <<K, hist>>

-----------------------------------------------------------------------------
Line(k) == [k |-> k, e |-> 0, h |-> 0, c |-> 0, n |-> "", ch |-> "", p |-> 0, o |-> 0,
            x |-> 0, y |-> 0, v |-> 0, f |-> 0, d |-> 0]

IdleLimit == 3          \* the replay runs run() with idle_limit = 3 (harness/kernel.py to_history)
TIMEOUT == 100          \* manager.TIMEOUT = 0.1 s, in ms as the harness logs it

Gen0 == [tmo |-> -1, tick |-> FALSE, timedout |-> FALSE,
         kind |-> "h", e |-> 0, h |-> 0, comp |-> 0, pc |-> 1, step |-> 0, lf |-> 0, final |-> FALSE, dead |-> FALSE,
         caller |-> 0, iscall |-> FALSE, spec |-> [name |-> "", ch |-> "", prio |-> 0, flags |-> 0, on |-> 0, byname |-> FALSE],
         name |-> "", ch |-> "", obj |-> 0, armed |-> FALSE, run |-> FALSE, wevent |-> 0, notified |-> FALSE]
IsGenScript(ops) == \E i \in DOMAIN ops : ops[i][1] \in {"yield", "call", "wait"}

MEv0 == [name |-> "", ch |-> "", prio |-> 0, flags |-> 0, cancelled |-> FALSE, stopped |-> FALSE,
         cause |-> 0, effects |-> 0, kind |-> 0, ref |-> 0, ca |-> 0, cb |-> 0,
         results |-> <<>>, errors |-> FALSE, ext |-> FALSE, tracked |-> FALSE,
         firer |-> 0,          \* component whose fire() created the event (Value.manager)
         wH |-> 0,             \* waitingHandlers: suspended generator handlers (and their call/wait sub-tasks)
         promise |-> FALSE,    \* Value.promise: some handler returned a generator
         alertdone |-> FALSE,  \* alert_done: a call()/wait() wants <name>_done
         viacall |-> FALSE]    \* fired inside callEvent: the harness holds no Value for it

K0(G) == [g        |-> G,
          par      |-> [c \in 1..Len(G.chan) |-> c],
          pendU    |-> {},
          live     |-> Range(G.live0),
          cache    |-> [c \in 1..Len(G.chan) |-> {}],      \* set of <<name, ch, handler set>>
          refresh  |-> [c \in 1..Len(G.chan) |-> FALSE],
          queue    |-> [c \in 1..Len(G.chan) |-> <<>>],   \* _queue._queue: entries <<priority, counter, event>>
          ctr      |-> [c \in 1..Len(G.chan) |-> 0],      \* _queue._counter (per manager!)
          pq       |-> [c \in 1..Len(G.chan) |-> {}],     \* _queue._priority_queue (rest of the pass)
          tied     |-> FALSE,
          broken   |-> FALSE,                              \* the behaviour left the part of processTask that is modelled                              \* some pop had several minimal entries (order unspecified)
          flushing |-> 0,                                   \* root whose flush() is in progress
          ev       |-> <<>>,
          handling |-> 0,                                   \* _currently_handling (of the dispatching root)
          handlingroot |-> 0,
          cur      |-> [e |-> 0, r |-> 0, todo |-> {}, err |-> FALSE],
          lastfired|-> 0,
          inhandler|-> 0,                                   \* program handler whose script is executing
          extfired |-> <<>>,
          S        |-> S0(G),
          bad      |-> Bad0,
          out      |-> <<>>,
          nl       |-> 0,
          quiescing|-> FALSE,
          done     |-> FALSE,
          gens     |-> <<>>,                                \* generator objects: handler generators and call/wait generators
          tasks    |-> {},                                  \* _tasks: <<event, generator, parent generator, root>>
          tasktodo |-> {},                                  \* snapshot being processed by tick()
          ticking  |-> 0,                                   \* root whose tick() is in progress
          tickstage|-> "",
          running  |-> FALSE,                               \* Manager._running
          run      |-> [phase |-> "off", r |-> 0, left |-> 0, exit |-> -1, raised |-> FALSE],   \* run() in progress
          timeleft |-> 0,
          idle     |-> 0,                                   \* consecutive idle waits (harness: a second thread stops the loop at IdleLimit)
          act      |-> FALSE]                               \* a program handler or generator step ran since the last idle wait                                   \* generate_events._time_left of the one being dispatched

RootK(Kx, c) == RootOf(Kx.par, c, Len(Kx.par))

(* run new lines through the monitor *)
RECURSIVE Feed(_, _, _, _, _)
Feed(G, S, bad, lines, l) ==
  IF lines = <<>> THEN <<S, bad>>
  ELSE Feed(G, Apply(G, S, Head(lines)), UpdBad(bad, Fails(G, S, Head(lines)), l), Tail(lines), l + 1)

Emit(Kx, lines) ==
  LET r == IF RunMonitor THEN Feed(Kx.g, Kx.S, Kx.bad, lines, Kx.nl + 1) ELSE <<Kx.S, Kx.bad>>
  IN [Kx EXCEPT !.S = r[1], !.bad = r[2], !.out = IF KeepOut THEN @ \o lines ELSE @, !.nl = @ + Len(lines)]

-----------------------------------------------------------------------------
(* projection of the object graph, as harness/universe.py logs it *)
ProjLines(Kx) ==
  [c \in 1..Len(Kx.par) |->
     [Line("proj") EXCEPT !.c = c, !.x = Kx.par[c], !.y = RootK(Kx, c), !.f = 1,
                          !.d = Cardinality({k \in DOMAIN Kx.par : k # c /\ Kx.par[k] = c}),
                          !.v = IF c \in Kx.pendU THEN 1 ELSE 0]]

RECURSIVE ValueLines(_, _)
ValueLines(Kx, e) ==
  IF e > Len(Kx.ev) THEN <<>>
  ELSE IF Kx.ev[e].kind # 0 \/ Kx.ev[e].viacall THEN ValueLines(Kx, e + 1)
  ELSE LET res == Kx.ev[e].results IN
       [i \in 1..Len(res) |-> [Line("vitem") EXCEPT !.e = e, !.v = res[i]]]
       \o << [Line("vend") EXCEPT !.e = e, !.f = IF Kx.ev[e].errors THEN 1 ELSE 0, !.d = Len(res),
                                   !.x = IF Len(res) > 1 THEN 1 ELSE 0, !.y = IF Len(res) > 0 THEN 1 ELSE 0,
                                   !.n = Kx.ev[e].name] >>
       \o ValueLines(Kx, e + 1)

(* Manager._fire + fireEvent *)
FlagsOf(spec) == spec.flags
DoFireT(Kx, c, name, ch0, prio, flags, kind, ref, ca, cb, oe, oh, ext, samethread) ==
  LET G    == Kx.g
      r    == RootK(Kx, c)
      eid  == Len(Kx.ev) + 1
      ch   == IF ch0 = "" THEN G.chan[c] ELSE ch0
      trk  == samethread /\ Kx.handling # 0 /\ Kx.handlingroot = r /\ Kx.ev[Kx.handling].cause # 0
      rec  == [MEv0 EXCEPT !.name = name, !.ch = ch, !.prio = prio, !.flags = flags, !.kind = kind,
                           !.ref = ref, !.ca = ca, !.cb = cb, !.ext = ext, !.firer = c,
                           !.cause = IF trk THEN Kx.handling ELSE 0,
                           !.effects = IF trk THEN 1 ELSE 0]
      K1   == [Kx EXCEPT !.ev = Append(@, rec), !.queue[r] = Append(@, <<prio, Kx.ctr[r], eid>>),
                       !.ctr[r] = @ + 1, !.lastfired = eid]
      K2   == IF trk THEN [K1 EXCEPT !.ev[Kx.handling].effects = @ + 1] ELSE K1
  IN Emit(K2, << [Line("fire") EXCEPT !.e = eid, !.n = name, !.ch = ch, !.p = prio, !.c = r, !.o = oe, !.h = oh,
                                       !.f = flags, !.x = ref, !.y = kind, !.v = ca, !.d = cb] >>)

DoFire(Kx, c, name, ch0, prio, flags, kind, ref, ca, cb, oe, oh, ext) ==
  DoFireT(Kx, c, name, ch0, prio, flags, kind, ref, ca, cb, oe, oh, ext, TRUE)

SuffixName(name, kind) ==
  CASE kind = 1 -> name \o "_success"
    [] kind = 2 -> name \o "_failure"
    [] kind = 3 -> name \o "_complete"
    [] kind = 6 -> name \o "_value_changed"
    [] OTHER -> name

(* structural operations *)
RECURSIVE SubtreeK(_, _)
SubtreeK(Kx, top) == { c \in DOMAIN Kx.par : InSubtree(Kx.par, c, top, Len(Kx.par)) }

DoRegister(Kx, c, p, oe, oh, isop) ==
  LET r  == RootK(Kx, p)
      K1 == [Kx EXCEPT !.par[c] = p,
                       !.queue[r] = IF r = c THEN @ ELSE @ \o Kx.queue[c],
                       !.queue[c] = IF r = c THEN @ ELSE <<>>,
                       !.refresh[r] = TRUE]
      K2 == Emit(K1, << [Line(IF isop THEN "op" ELSE "api") EXCEPT !.n = "reg", !.c = c, !.x = p, !.e = oe, !.h = oh] >>)
  IN DoFire(K2, c, "registered", "", 0, 0, 7, 0, c, p, oe, oh, FALSE)

DoUnregister(Kx, c, oe, oh, isop) ==
  LET K1 == Emit(Kx, << [Line(IF isop THEN "op" ELSE "api") EXCEPT !.n = "unreg", !.c = c, !.e = oe, !.h = oh] >>)
  IN IF c \in Kx.pendU \/ Kx.par[c] = c THEN K1
     ELSE LET r  == RootK(Kx, c)
              K2 == [K1 EXCEPT !.pendU = @ \cup {c}, !.refresh[r] = TRUE]
          IN DoFire(K2, c, "prepare_unregister", "", 0, 4, 9, 0, c, 0, oe, oh, FALSE)

DoAddHandler(Kx, h, oe, oh, isop) ==
  LET c == Kx.g.H[h].comp
      K1 == [Kx EXCEPT !.live = @ \cup {h}, !.refresh[RootK(Kx, c)] = TRUE]
  IN Emit(K1, << [Line(IF isop THEN "op" ELSE "api") EXCEPT !.n = "addh", !.x = h, !.c = c, !.e = oe, !.h = oh] >>)

DoRemoveHandler(Kx, h, oe, oh, isop) ==
  LET c == Kx.g.H[h].comp
      K1 == [Kx EXCEPT !.live = @ \ {h}, !.refresh[RootK(Kx, c)] = TRUE]
  IN Emit(K1, << [Line(IF isop THEN "op" ELSE "api") EXCEPT !.n = "rmh", !.x = h, !.c = c, !.e = oe, !.h = oh] >>)

(* BaseComponent._do_prepare_unregister_complete *)
DoDetachK(Kx, c, oe) ==
  IF Kx.par[c] = c THEN [Kx EXCEPT !.pendU = @ \ {c}]
  ELSE LET p  == Kx.par[c]
           r  == RootK(Kx, c)
           K1 == DoFire([Kx EXCEPT !.pendU = @ \ {c}], c, "unregistered", "", 0, 0, 8, 0, c, p, 0, 0, FALSE)
           K2 == [K1 EXCEPT !.par[c] = c, !.refresh[r] = TRUE,
                            !.refresh[c] = IF StaleCache THEN @ ELSE TRUE]
       IN K2

-----------------------------------------------------------------------------
(* Manager.stop(code), code -1 = None.  Returns <<K, raises>>: with a code it raises SystemExit
   in the calling thread after having stopped. *)
DoStop(Kx, code, samethread) ==
  IF ~Kx.running THEN <<Kx, FALSE>>
  ELSE LET r  == Kx.run.r
           K1 == [Kx EXCEPT !.running = FALSE]
           K2 == DoFireT(K1, r, "stopped", "", 0, 0, 10, 0, 0, 0,
                         IF samethread /\ Kx.cur.e # 0 /\ Kx.inhandler # 0 THEN Kx.cur.e ELSE 0,
                         IF samethread THEN Kx.inhandler ELSE 0, FALSE, samethread)
       IN <<K2, code # -1>>

(* a handler's script, run atomically inside the dispatch of event e *)
ScriptOf(G, h, name) ==
  LET sc == G.H[h].script
      hits == { i \in DOMAIN sc : sc[i][1] = name }
  IN IF hits = {} THEN <<>> ELSE sc[CHOOSE i \in hits : TRUE][2]

RECURSIVE RunOps(_, _, _, _, _)
(* returns <<K, value, outcome, code>>; outcome: "ok", "raise" (ScriptError), "exit" (SystemExit(code)
   left the handler), "kbint" *)
RunOps(Kx, e, h, ops, acc) ==
  IF ops = <<>> THEN <<Kx, acc, "ok", -1>>
  ELSE LET op == Head(ops)
           c  == Kx.g.H[h].comp
           opl(n) == [Line("op") EXCEPT !.e = e, !.h = h, !.n = n]
       IN CASE op[1] = "fire" ->
                 LET sp == op[2]
                     K1 == Emit(Kx, <<opl("fire")>>)
                     K2 == DoFire(K1, IF sp.on = 0 THEN c ELSE sp.on, sp.name, sp.ch, sp.prio, sp.flags, 0, 0, 0, 0, e, h, FALSE)
                 IN RunOps(K2, e, h, Tail(ops), acc)
            [] op[1] = "cancel_last" ->
                 IF Kx.lastfired = 0 THEN RunOps(Kx, e, h, Tail(ops), acc)
                 ELSE RunOps(Emit([Kx EXCEPT !.ev[Kx.lastfired].cancelled = TRUE],
                                  << [opl("cancel") EXCEPT !.x = Kx.lastfired] >>), e, h, Tail(ops), acc)
            [] op[1] = "stop" ->
                 RunOps(Emit([Kx EXCEPT !.ev[e].stopped = TRUE], <<opl("stop")>>), e, h, Tail(ops), acc)
            [] op[1] = "ret" -> RunOps(Kx, e, h, Tail(ops), op[2])
            [] op[1] = "raise" -> <<Emit(Kx, <<opl("raise")>>), 0, "raise", -1>>
            [] op[1] = "exit" -> <<Emit(Kx, << [opl("exit") EXCEPT !.x = op[2]] >>), 0, "exit", op[2]>>
            [] op[1] = "kbint" -> <<Emit(Kx, << [opl("kbint") EXCEPT !.x = -1] >>), 0, "kbint", -1>>
            [] op[1] = "stopmgr" ->
                 LET K1 == Emit(Kx, << [opl("stopmgr") EXCEPT !.x = op[2], !.c = c] >>)
                     st == DoStop(K1, op[2], TRUE)
                 IN IF st[2]      \* stop(code) raised SystemExit(code): it leaves the handler
                    THEN <<IF ExitDeferred THEN [st[1] EXCEPT !.run.exit = IF @ = -1 THEN op[2] ELSE @] ELSE st[1],
                           0, "exit", op[2]>>
                    ELSE RunOps(st[1], e, h, Tail(ops), acc)
            [] op[1] = "stop2" ->
                 LET K1 == Emit(Kx, << [opl("stop2") EXCEPT !.x = op[2], !.c = RootK(Kx, c)] >>)
                     st == DoStop(K1, op[2], FALSE)          \* in another thread: its SystemExit stays there
                 IN RunOps(IF ExitDeferred THEN [st[1] EXCEPT !.run.exit = IF @ = -1 /\ Kx.running THEN op[2] ELSE @] ELSE st[1],
                           e, h, Tail(ops), acc)
            [] op[1] = "addh" -> RunOps(DoAddHandler(Kx, op[2], e, h, TRUE), e, h, Tail(ops), acc)
            [] op[1] = "rmh" -> RunOps(DoRemoveHandler(Kx, op[2], e, h, TRUE), e, h, Tail(ops), acc)
            [] op[1] = "reg" -> RunOps(DoRegister(Kx, op[2], op[3], e, h, TRUE), e, h, Tail(ops), acc)
            [] op[1] = "unreg" -> RunOps(DoUnregister(Kx, op[2], e, h, TRUE), e, h, Tail(ops), acc)
            [] OTHER -> RunOps(Kx, e, h, Tail(ops), acc)

-----------------------------------------------------------------------------
(* Manager._eventDone: success, then complete detection by cause/effects *)
RECURSIVE CompleteChainR(_, _, _)
CompleteChain(Kx, e) == CompleteChainR(Kx, e, Kx.cur.r)
CompleteChainR(Kx, e, root) ==
  IF Kx.ev[e].cause = 0 THEN Kx
  ELSE LET K1 == [Kx EXCEPT !.ev[e].effects = @ - 1]
       IN IF K1.ev[e].effects > 0 THEN K1
          ELSE LET cause == K1.ev[e].cause
                   K2 == IF (K1.ev[e].flags \div 4) % 2 = 1
                         THEN DoFire(K1, root, SuffixName(K1.ev[e].name, 3),
                                     IF K1.ev[e].kind = 9 THEN K1.g.inst[K1.ev[e].ca] ELSE K1.ev[e].ch,
                                     0, 0, 3, e, 0, 0, 0, 0, FALSE)
                         ELSE K1
                   K3 == [K2 EXCEPT !.ev[e].cause = 0, !.ev[e].effects = 0]
               IN IF cause = e THEN K3 ELSE CompleteChainR(K3, cause, root)

EventDoneR(Kx, e, err, root) ==
  IF Kx.ev[e].wH > 0 THEN Kx
  ELSE
  LET K0_ == IF Kx.ev[e].alertdone      \* <name>_done, for waitEvent's _on_done
             THEN DoFire(Kx, root, Kx.ev[e].name \o "_done", Kx.ev[e].ch, 0, 0, 4, e, 0, 0, 0, 0, FALSE)
             ELSE Kx
      K1 == IF ~err /\ Kx.ev[e].flags % 2 = 1
            THEN DoFire(K0_, root, SuffixName(Kx.ev[e].name, 1), Kx.ev[e].ch, 0, 0, 1, e, 0, 0, 0, 0, FALSE)
            ELSE K0_
  IN CompleteChainR(K1, e, root)
EventDone(Kx, e, err) == EventDoneR(Kx, e, err, Kx.cur.r)

-----------------------------------------------------------------------------
(* Value.setValue -> inform(): with notify set, every stored result announces itself
   with <name>_value_changed, fired by the component that fired the event, on its own
   instance channel *)
ForceInform(Kx, e) ==
  IF (Kx.ev[e].flags \div 8) % 2 = 1
  THEN DoFire(Kx, Kx.ev[e].firer, SuffixName(Kx.ev[e].name, 6), Kx.g.inst[Kx.ev[e].firer], 0, 0, 6, e, 0, 0, 0, 0, FALSE)
  ELSE Kx
Inform(Kx, e) ==
  IF (Kx.ev[e].flags \div 8) % 2 = 1 /\ ~Kx.ev[e].promise
  THEN DoFire(Kx, Kx.ev[e].firer, SuffixName(Kx.ev[e].name, 6), Kx.g.inst[Kx.ev[e].firer], 0, 0, 6, e, 0, 0, 0, 0, FALSE)
  ELSE Kx

-----------------------------------------------------------------------------
(* generator handlers, call() and wait() : Manager.processTask, waitEvent, callEvent *)
WaitMatches(Kx, w, e, r) ==
  LET W  == Kx.gens[w]
      hc == IF W.ch = "" THEN Kx.g.chan[W.comp] ELSE W.ch
      ec == Kx.ev[e].ch
  IN /\ W.kind = "w" /\ W.armed /\ RootK(Kx, W.comp) = r
     /\ (ec = "*" \/ hc = "*" \/ hc = ec \/ ec = Kx.g.inst[W.comp])

(* the temporary handlers of pending waits that this dispatch reaches: _on_event marks the
   event (alert_done) and remembers it; _on_done (for <name>_done) schedules the wait generator *)
Awake(Kx, e, r) ==
  LET evs == { w \in DOMAIN Kx.gens : WaitMatches(Kx, w, e, r) /\ ~Kx.gens[w].run /\ Kx.gens[w].name = Kx.ev[e].name
                                      /\ (Kx.gens[w].obj = 0 \/ Kx.gens[w].obj = e) }
      dns == IF Kx.ev[e].kind # 4 THEN {}
             ELSE { w \in DOMAIN Kx.gens : WaitMatches(Kx, w, e, r) /\ Kx.gens[w].run /\ ~Kx.gens[w].notified
                                            /\ Kx.gens[w].wevent = Kx.ev[e].ref }
  IN [Kx EXCEPT !.gens = Force([w \in DOMAIN Kx.gens |->
                           IF w \in evs THEN [Kx.gens[w] EXCEPT !.run = TRUE, !.wevent = e]
                           ELSE IF w \in dns THEN [Kx.gens[w] EXCEPT !.notified = TRUE, !.tick = FALSE]
                           ELSE Kx.gens[w]]),
                !.ev[e].alertdone = @ \/ evs # {},
                !.refresh[r] = @ \/ evs # {},
                !.tasks = @ \cup { <<Kx.gens[w].e, w, Kx.gens[w].caller, r>> : w \in dns }]

(* waitEvent's _on_tick, a generate_events handler: count the timeout down; at 0 schedule a
   TimeoutError for the caller and withdraw the wait's handlers *)
Countdown(Kx, r) ==
  LET ws   == { w \in DOMAIN Kx.gens : Kx.gens[w].kind = "w" /\ Kx.gens[w].tick /\ RootK(Kx, Kx.gens[w].comp) = r }
      fire == { w \in ws : Kx.gens[w].tmo = 0 }
  IN IF ws = {} THEN Kx
     ELSE [Kx EXCEPT !.gens = Force([w \in DOMAIN Kx.gens |->
                               IF w \in fire THEN [Kx.gens[w] EXCEPT !.tick = FALSE, !.armed = FALSE, !.timedout = TRUE]
                               ELSE IF w \in ws THEN [Kx.gens[w] EXCEPT !.tmo = @ - 1]
                               ELSE Kx.gens[w]]),
                   !.refresh[r] = @ \/ fire # {},
                   !.tasks = @ \cup { <<Kx.gens[w].e, w, Kx.gens[w].caller, r>> : w \in fire }]

GenScript(Kx, g) == ScriptOf(Kx.g, Kx.gens[g].h, Kx.ev[Kx.gens[g].e].name)
RECURSIVE SuspIdx(_, _)
SuspIdx(ops, j) == IF j > Len(ops) THEN 0
                   ELSE IF ops[j][1] \in {"yield", "call", "wait"} THEN j ELSE SuspIdx(ops, j + 1)

(* advance a handler generator by one step (next / send): <<K, kind, value>>,
   kind: "value" (yielded a plain value, 0 = None), "gen" (yielded a call/wait generator, value = its id),
         "stop" (StopIteration), "raise" *)
StepGen(Kx, g) ==
  LET Gn  == Kx.gens[g]
      e   == Gn.e
      h   == Gn.h
      ops == GenScript(Kx, g)
      stepl(d) == [Line("step") EXCEPT !.e = e, !.h = h, !.d = d]
  IN IF Gn.dead THEN <<Kx, "stop", 0>>
     ELSE IF Gn.final
     THEN <<Emit([Kx EXCEPT !.gens[g].dead = TRUE, !.act = TRUE], <<stepl(Gn.step + 1), [Line("gend") EXCEPT !.e = e, !.h = h]>>), "stop", 0>>
     ELSE
     LET j   == SuspIdx(ops, Gn.pc)
         seg == IF j = 0 THEN SubSeq(ops, Gn.pc, Len(ops)) ELSE SubSeq(ops, Gn.pc, j - 1)
         K1  == Emit([Kx EXCEPT !.gens[g].step = @ + 1, !.act = TRUE], <<stepl(Gn.step + 1)>>)
         r   == RunOps([K1 EXCEPT !.inhandler = h, !.lastfired = Gn.lf], e, h, seg, 0)
         K2  == [r[1] EXCEPT !.inhandler = 0, !.gens[g].lf = r[1].lastfired]
     IN IF r[3] = "raise"
        THEN <<Emit([K2 EXCEPT !.gens[g].dead = TRUE], << [Line("gend") EXCEPT !.e = e, !.h = h, !.f = 1] >>), "raise", 0>>
        ELSE IF j = 0
        THEN IF r[2] # 0
             THEN <<Emit([K2 EXCEPT !.gens[g].final = TRUE, !.gens[g].pc = Len(ops) + 1],
                         << [Line("yld") EXCEPT !.e = e, !.h = h, !.v = r[2]] >>), "value", r[2]>>
             ELSE <<Emit([K2 EXCEPT !.gens[g].dead = TRUE], << [Line("gend") EXCEPT !.e = e, !.h = h] >>), "stop", 0>>
        ELSE LET op == ops[j] IN
             IF op[1] = "yield"
             THEN <<Emit([K2 EXCEPT !.gens[g].pc = j + 1], << [Line("yld") EXCEPT !.e = e, !.h = h, !.v = op[2]] >>),
                    "value", op[2]>>
             ELSE LET w  == Len(K2.gens) + 1
                      sp == op[2]
                      iscall == op[1] = "call"
                      obj == IF iscall \/ sp.byname THEN 0 ELSE K2.gens[g].lf
                      rec == [Gen0 EXCEPT !.kind = "w", !.e = e, !.h = h, !.caller = g,
                                          !.comp = IF iscall /\ sp.on # 0 THEN sp.on ELSE Gn.comp,
                                          !.iscall = iscall, !.spec = sp, !.name = sp.name, !.obj = obj,
                                          !.ch = IF iscall THEN "" ELSE IF obj # 0 THEN K2.ev[obj].ch ELSE sp.ch,
                                          !.tmo = op[3]]
                  IN <<Emit([K2 EXCEPT !.gens = Append(@, rec), !.gens[g].pc = j + 1],
                            << [Line("yld") EXCEPT !.e = e, !.h = h, !.f = 1, !.x = obj,
                                                   !.n = IF iscall THEN "call" ELSE "wait", !.d = op[3]] >>), "gen", w>>

(* first step of a call/wait generator: callEvent fires the event; waitEvent installs its handlers *)
StartWait(Kx, w, root) ==
  LET W == Kx.gens[w] IN
  IF W.iscall
  THEN LET e2 == Len(Kx.ev) + 1
           K1 == DoFire(Kx, W.comp, W.spec.name, W.spec.ch, W.spec.prio, W.spec.flags, 0, 0, 0, 0, W.e, W.h, FALSE)
       IN [K1 EXCEPT !.gens[w].obj = e2, !.gens[w].ch = K1.ev[e2].ch, !.gens[w].armed = TRUE, !.refresh[root] = TRUE,
                     !.gens[w].tick = W.tmo >= 0, !.ev[e2].viacall = TRUE]
  ELSE [Kx EXCEPT !.gens[w].armed = TRUE, !.gens[w].tick = W.tmo >= 0, !.refresh[root] = TRUE]

AddResult(Kx, e, v) == IF v # 0 THEN [Kx EXCEPT !.ev[e].results = Append(@, v)] ELSE Kx

(* processTask's `except BaseException` branch *)
TaskError(Kx, e, root, dec) ==
  LET K1 == [Kx EXCEPT !.ev[e].results = Append(@, -1), !.ev[e].errors = TRUE]
      K2 == ForceInform(K1, e)
      K3 == IF (K2.ev[e].flags \div 2) % 2 = 1
            THEN DoFire(K2, root, SuffixName(K2.ev[e].name, 2), K2.ev[e].ch, 0, 0, 2, e, 0, 0, 0, 0, FALSE)
            ELSE K2
      K4 == DoFire(K3, root, "exception", "", 0, 0, 5, e, 0, 0, 0, 0, FALSE)
      K5 == IF GenErrorHang THEN K4 ELSE [K4 EXCEPT !.ev[e].wH = @ - dec]
  IN IF GenErrorHang THEN [K4 EXCEPT !.handling = 0]
     ELSE IF K5.ev[e].wH = 0 THEN EventDoneR([K5 EXCEPT !.handling = 0], e, TRUE, root) ELSE K5

ProcessTask(Kx, t) ==
  LET e    == t[1]
      g    == t[2]
      par  == t[3]
      root == t[4]
      Kh   == IF StepUntracked THEN Kx ELSE [Kx EXCEPT !.handling = e, !.handlingroot = root]      \* _stepTask
  IN IF Kx.gens[g].kind = "h"
     THEN LET s == StepGen(Kh, g) IN
          CASE s[2] = "value" -> [AddResult(s[1], e, s[3]) EXCEPT !.handling = 0]
            [] s[2] = "gen"   -> [StartWait([s[1] EXCEPT !.ev[e].wH = @ + 1, !.tasks = @ \ {t}], s[3], root) EXCEPT !.handling = 0]
            [] s[2] = "stop"  ->
                 LET K1 == [s[1] EXCEPT !.ev[e].wH = @ - 1, !.tasks = @ \ {t}, !.handling = 0]
                 IN IF K1.ev[e].wH = 0 THEN EventDoneR(ForceInform(K1, e), e, IF SuccessNoErr THEN FALSE ELSE K1.ev[e].errors, root)
                    ELSE K1
            [] OTHER -> TaskError([s[1] EXCEPT !.tasks = @ \ {t}, !.handling = 0], e, root, 1)   \* _stepTask has returned
     ELSE IF Kx.gens[g].timedout
     THEN \* the timeout task: TimeoutError is thrown into the caller
          LET W  == Kx.gens[g]
              cg == W.caller
              K1 == [Kh EXCEPT !.tasks = @ \ {t}, !.gens[g].dead = TRUE]
              K2 == Emit(K1, << [Line("resume") EXCEPT !.e = W.e, !.h = W.h, !.f = 2, !.n = "TimeoutError"] >>)
              s  == StepGen(K2, cg)
          IN CASE s[2] = "stop"  -> [s[1] EXCEPT !.ev[e].wH = @ - 1, !.tasks = @ \cup {<<e, cg, 0, root>>}, !.handling = 0]
               [] s[2] = "value" ->
                    \* the caller handled the TimeoutError and goes on: as after a normal resume
                    [AddResult(s[1], e, s[3]) EXCEPT !.ev[e].wH = @ - 1, !.tasks = @ \cup {<<e, cg, 0, root>>}, !.handling = 0]
               [] s[2] = "gen"   -> [StartWait(s[1], s[3], root) EXCEPT !.handling = 0]
               [] OTHER -> TaskError([s[1] EXCEPT !.handling = 0], e, root, 2)
     ELSE IF Kx.gens[g].kind = "v"
     THEN \* the wrapper generator made for a value yielded right after a TimeoutError
          LET V == Kx.gens[g] IN
          IF ~V.final
          THEN [AddResult([Kx EXCEPT !.gens[g].final = TRUE], e, V.obj) EXCEPT !.handling = 0]
          ELSE [Kx EXCEPT !.gens[g].dead = TRUE, !.ev[e].wH = @ - 1, !.tasks = (@ \ {t}) \cup {<<e, V.caller, 0, root>>}]
     ELSE \* a call/wait generator whose event is done: it hands the result to the caller (CallValue -> send)
          LET W  == Kx.gens[g]
              cg == W.caller
              K1 == [Kh EXCEPT !.tasks = @ \ {t}, !.gens[g].armed = FALSE, !.gens[g].dead = TRUE, !.refresh[root] = TRUE]
              K2 == Emit(K1, << [Line("resume") EXCEPT !.e = W.e, !.h = W.h,
                                                        !.x = IF W.obj = 0 THEN 0 ELSE W.wevent,   \* a wait by name does not know its event
                                                        !.v = ValId(K1.ev[W.wevent].results),
                                                        !.f = IF K1.ev[W.wevent].errors THEN 1 ELSE 0] >>)
              s  == StepGen(K2, cg)
          IN CASE s[2] = "gen"   -> [StartWait(s[1], s[3], root) EXCEPT !.handling = 0]
               [] s[2] = "value" -> [AddResult(s[1], e, s[3]) EXCEPT !.ev[e].wH = @ - 1, !.tasks = @ \cup {<<e, cg, 0, root>>},
                                                                     !.handling = 0]
               [] s[2] = "stop"  -> [s[1] EXCEPT !.ev[e].wH = @ - 1, !.tasks = @ \cup {<<e, cg, 0, root>>}, !.handling = 0]
               [] OTHER -> TaskError([s[1] EXCEPT !.handling = 0], e, root, 2)

-----------------------------------------------------------------------------
(* environment *)
G == K.g
NOps == Len(hist)
LastOp == IF hist = <<>> THEN "" ELSE hist[Len(hist)][1]
Idle == K.cur.e = 0 /\ K.flushing = 0 /\ K.run.phase = "off" /\ K.ticking = 0
CanOp(kind) == Idle /\ ~K.quiescing /\ NOps < G.maxops /\ kind \in Range(G.ops)
              /\ (NOps >= Len(G.pre))           \* the forced prefix comes first

Forced == Idle /\ ~K.quiescing /\ NOps < Len(G.pre)

(* the driver's final quiesce(): tick the lowest root that has something queued
   until nothing is queued anywhere, then project structure and values *)
BusyRoots == { c \in DOMAIN K.par : K.par[c] = c /\ (K.queue[c] # <<>> \/ K.pq[c] # {} \/ \E t \in K.tasks : t[4] = c) }
(* tick(): first every registered task (a snapshot, in no particular order), then - for a running
   manager - generate_events, then one flush *)
TickBegin(Kx, r) == [Kx EXCEPT !.ticking = r, !.tickstage = "tasks", !.tasktodo = { t \in Kx.tasks : t[4] = r }]
(* dispatchEvents: a new snapshot only when the previous batch is exhausted (it is not when a
   SystemExit left the dispatcher in the middle of it) *)
StartPass(Kx, r) ==
  IF Kx.pq[r] # {} THEN [Kx EXCEPT !.flushing = r]
  ELSE [Kx EXCEPT !.flushing = r, !.pq[r] = Range(Kx.queue[r]), !.queue[r] = <<>>]
StartQuiesce ==
  /\ Idle /\ ~K.quiescing /\ NOps >= Len(G.pre)
  /\ hist' = Append(hist, <<"quiesce", 0, 0, 0>>)
  /\ K' = [K EXCEPT !.quiescing = TRUE]
QTick ==
  /\ K.quiescing /\ Idle /\ ~K.done /\ BusyRoots # {}
  /\ UNCHANGED hist
  /\ LET r == CHOOSE c \in BusyRoots : \A c2 \in BusyRoots : c <= c2
     IN K' = TickBegin(Emit(K, << [Line("api") EXCEPT !.n = "tick", !.c = r] >>), r)
QDone ==
  /\ K.quiescing /\ Idle /\ ~K.done /\ BusyRoots = {}
  /\ UNCHANGED hist
  /\ K' = [Emit(K, ProjLines(K) \o ValueLines(K, 1) \o
                    << [Line("quiet") EXCEPT !.v = Cardinality(K.tasks),
                                             !.x = Cardinality({w \in DOMAIN K.gens : K.gens[w].kind = "w" /\ K.gens[w].armed /\ ~K.gens[w].run})
                                                   + Cardinality({w \in DOMAIN K.gens : K.gens[w].kind = "w" /\ K.gens[w].armed})] >>)
             EXCEPT !.done = TRUE]

ExtFire(c, i) ==
  /\ hist' = Append(hist, <<"fire", c, i, 0>>)
  /\ LET sp == G.ext[i]
         K1 == Emit(K, << [Line("api") EXCEPT !.n = "fire", !.c = c] >>)
         K2 == DoFire(K1, c, sp.name, sp.ch, sp.prio, sp.flags, 0, 0, 0, 0, 0, 0, TRUE)
     IN K' = [K2 EXCEPT !.extfired = Append(@, Len(K.ev) + 1)]

ExtCancel(k) ==
  /\ k \in DOMAIN K.extfired
  /\ hist' = Append(hist, <<"cancel", k, 0, 0>>)
  /\ LET e == K.extfired[k]
     IN K' = Emit([K EXCEPT !.ev[e].cancelled = TRUE], << [Line("api") EXCEPT !.n = "cancel", !.e = e] >>)

ExtReg(c, p) ==
  /\ K.par[c] = c /\ c \notin K.pendU /\ c # p
  /\ ~InSubtree(K.par, p, c, Len(K.par))
  /\ hist' = Append(hist, <<"reg", c, p, 0>>)
  /\ K' = DoRegister(K, c, p, 0, 0, FALSE)

ExtUnreg(c) ==
  /\ K.par[c] # c /\ c \notin K.pendU
  /\ hist' = Append(hist, <<"unreg", c, 0, 0>>)
  /\ K' = DoUnregister(K, c, 0, 0, FALSE)

ExtAddH(h) ==
  /\ h \notin K.live
  /\ hist' = Append(hist, <<"addh", h, 0, 0>>)
  /\ K' = DoAddHandler(K, h, 0, 0, FALSE)

ExtRmH(h) ==
  /\ h \in K.live
  /\ hist' = Append(hist, <<"rmh", h, 0, 0>>)
  /\ K' = DoRemoveHandler(K, h, 0, 0, FALSE)

(* flush() on any component delegates to its root: one pass *)
ExtFlush(c) ==
  /\ LET r == RootK(K, c) IN
     /\ (K.queue[r] # <<>> \/ K.pq[r] # {})
     /\ hist' = Append(hist, <<"flush", c, 0, 0>>)
     /\ K' = StartPass(Emit(K, << [Line("api") EXCEPT !.n = "flush", !.c = c] >>), r)

(* run(): `started`, then tick() while running or something is queued, three more ticks, and a
   last one in the finally clause; a SystemExit that left the dispatcher skips to that last one *)
ExtRun(c) ==
  /\ K.par[c] = c /\ ~K.running
  /\ hist' = Append(hist, <<"run", c, 0, 0>>)
  /\ LET K1 == Emit(K, << [Line("api") EXCEPT !.n = "run", !.c = c] >>)
         K2 == [K1 EXCEPT !.running = TRUE, !.run = [phase |-> "loop", r |-> c, left |-> 0, exit |-> -1, raised |-> FALSE],
                          !.idle = 0, !.act = FALSE]
     IN K' = DoFireT(K2, c, "started", "", 0, 0, 10, 0, 0, 0, 0, 0, FALSE, TRUE)

ExtStop(c) ==
  /\ ~K.running
  /\ hist' = Append(hist, <<"stop", c, 0, 0>>)
  /\ K' = Emit(K, << [Line("api") EXCEPT !.n = "stop", !.c = c, !.x = -1] >>)

RunIdle == K.run.phase # "off" /\ K.cur.e = 0 /\ K.flushing = 0 /\ K.ticking = 0
QLen(Kx, r) == Len(Kx.queue[r]) + Cardinality(Kx.pq[r])

(* one tick() of the run loop *)
DoTick(Kx) == TickBegin(Kx, Kx.run.r)

StepTask ==
  /\ K.ticking # 0 /\ K.tickstage = "tasks" /\ K.tasktodo # {} /\ K.cur.e = 0 /\ K.flushing = 0
  /\ UNCHANGED hist
  /\ \E t \in K.tasktodo :
       /\ DetTasks => \A t2 \in K.tasktodo : t[2] <= t2[2]
       /\ K' = ProcessTask([K EXCEPT !.tasktodo = @ \ {t}, !.tied = @ \/ Cardinality(K.tasktodo) > 1], t)

TickFlush ==
  /\ K.ticking # 0 /\ K.tickstage = "tasks" /\ K.tasktodo = {} /\ K.cur.e = 0 /\ K.flushing = 0
  /\ UNCHANGED hist
  /\ LET r  == K.ticking
         K1 == IF K.running /\ K.run.r = r
               THEN DoFireT(K, r, "generate_events", "*", 0, 0, 10, 0, 0, 0, 0, 0, FALSE, TRUE)
               ELSE K
     IN IF QLen(K1, r) > 0 THEN K' = [StartPass(K1, r) EXCEPT !.tickstage = "flush"]
        ELSE K' = [K1 EXCEPT !.ticking = 0, !.tickstage = ""]

ExtTick(c) ==
  /\ LET r == RootK(K, c) IN
     /\ hist' = Append(hist, <<"tick", c, 0, 0>>)
     /\ K' = TickBegin(Emit(K, << [Line("api") EXCEPT !.n = "tick", !.c = c] >>), r)

RunStep ==
  /\ RunIdle
  /\ UNCHANGED hist
  /\ LET r == K.run.r IN
     CASE K.run.phase = "loop" ->
            IF K.running \/ QLen(K, r) > 0 THEN K' = DoTick(K)
            ELSE K' = [K EXCEPT !.run.phase = "fade", !.run.left = 3]
       [] K.run.phase = "fade" ->
            IF K.run.left > 0 THEN K' = [DoTick(K) EXCEPT !.run.left = K.run.left - 1]
            ELSE K' = [K EXCEPT !.run.phase = "final", !.run.left = 1]
       [] K.run.phase = "final" ->
            IF K.run.left > 0 THEN K' = [DoTick(K) EXCEPT !.run.left = 0]
            ELSE K' = [Emit(K, << [Line("runret") EXCEPT !.c = r,
                                                          !.x = IF K.run.raised \/ (ExitDeferred /\ K.run.exit # -1) THEN 1 ELSE 0,
                                                          !.v = IF K.run.raised \/ ExitDeferred THEN K.run.exit ELSE -1,
                                                          !.d = QLen(K, r), !.f = IF K.running THEN 1 ELSE 0,
                                                          !.y = IF K.run.raised THEN 1 ELSE 0] >>)
                         EXCEPT !.run.phase = "off"]

DoExt(op) ==
  CASE op[1] = "fire"   -> ExtFire(op[2], op[3])
    [] op[1] = "cancel" -> ExtCancel(op[2])
    [] op[1] = "reg"    -> ExtReg(op[2], op[3])
    [] op[1] = "unreg"  -> ExtUnreg(op[2])
    [] op[1] = "addh"   -> ExtAddH(op[2])
    [] op[1] = "rmh"    -> ExtRmH(op[2])
    [] op[1] = "flush"  -> ExtFlush(op[2])
    [] op[1] = "run"    -> ExtRun(op[2])
    [] op[1] = "tick"   -> ExtTick(op[2])
    [] op[1] = "stop"   -> ExtStop(op[2])

-----------------------------------------------------------------------------
(* system: the pass in progress *)
(* heappop: minimal (priority, counter); entries migrated from another manager's queue by
   register() keep that manager's counters, so ties are possible and their order is unspecified *)
Mins(Kx, r) == { t \in Kx.pq[r] : \A t2 \in Kx.pq[r] :
                   \/ t[1] < t2[1]
                   \/ t[1] = t2[1] /\ t[2] <= t2[2] }

HandlersFor(Kx, r, e) ==
  LET name == Kx.ev[e].name
      ch   == Kx.ev[e].ch
      fresh == { h \in Kx.live : RootK(Kx, Kx.g.H[h].comp) = r /\ Declared(Kx.g, h, name) /\ Listens(Kx.g, h, ch) }
      hit  == { t \in Kx.cache[r] : t[1] = name /\ t[2] = ch }
  IN IF Kx.refresh[r] \/ hit = {} THEN fresh ELSE (CHOOSE t \in hit : TRUE)[3]

(* _dispatcher: pop the next event of the pass, look the handlers up *)
BeginDispatch ==
  /\ K.flushing # 0 /\ K.cur.e = 0 /\ K.pq[K.flushing] # {}
  /\ UNCHANGED hist
  /\ \E t \in Mins(K, K.flushing) :
     LET r  == K.flushing
         e  == t[3]
         K0_ == [K EXCEPT !.pq[r] = @ \ {t}, !.tied = @ \/ Cardinality(Mins(K, r)) > 1]
         K1 == Emit(K0_,
                    << [Line("disp") EXCEPT !.e = e, !.c = r, !.n = K.ev[e].name, !.f = IF K.ev[e].cancelled THEN 1 ELSE 0] >>)
     IN IF K.ev[e].cancelled
        THEN K' = (IF CancelLeak \/ K.ev[e].cause = 0 THEN K1
                   ELSE CompleteChain([K1 EXCEPT !.cur.r = r], e))
        ELSE LET hs == HandlersFor(K, r, e)
                 K2 == [K1 EXCEPT !.cache[r] = (IF K.refresh[r] THEN {} ELSE @) \cup {<<K.ev[e].name, K.ev[e].ch, hs>>},
                                  !.refresh[r] = FALSE,
                                  !.handling = e, !.handlingroot = r,
                                  !.cur = [e |-> e, r |-> r, todo |-> hs, err |-> FALSE],
                                  !.ev[e].cause = IF (K.ev[e].flags \div 4) % 2 = 1 /\ K.ev[e].cause = 0 THEN e ELSE @,
                                  !.ev[e].effects = IF (K.ev[e].flags \div 4) % 2 = 1 THEN 1 ELSE @]
                 K2w == Awake(K2, e, r)
             IN K' = IF K.ev[e].name = "generate_events"
                     THEN LET K3 == Countdown(K2, r)
                          IN [K3 EXCEPT !.timeleft = IF Cardinality(K0_.pq[r]) > 0 \/ K.queue[r] # <<>> \/ ~K.running THEN 0
                                                      ELSE IF \E tk \in K3.tasks : tk[4] = r THEN TIMEOUT
                                                      ELSE -1]
                     ELSE K2w

(* FallBackGenerator._on_generate_events, appended after all other handlers: with time left it
   idles; the harness's virtual wait logs the idle wait and has a second thread stop the manager *)
IsGE == K.cur.e # 0 /\ K.ev[K.cur.e].name = "generate_events"
Fallback ==
  /\ IsGE /\ K.cur.todo = {} /\ ~K.ev[K.cur.e].stopped
  /\ UNCHANGED hist
  /\ LET e == K.cur.e IN
     IF K.timeleft = 0 THEN K' = [K EXCEPT !.ev[e].stopped = TRUE]
     ELSE LET n  == (IF K.act THEN 0 ELSE K.idle) + 1
              K1 == Emit([K EXCEPT !.idle = n, !.act = FALSE],
                         << [Line("idle") EXCEPT !.d = n, !.x = IF K.timeleft < 0 THEN 999999 ELSE K.timeleft] >>)
          IN IF (n >= IdleLimit \/ K.timeleft < 0) /\ K.running
             THEN LET K2 == Emit(K1, << [Line("api") EXCEPT !.n = "stop", !.c = K.run.r, !.x = -1, !.y = 1] >>)
                      st == DoStop(K2, -1, FALSE)
                  IN K' = [st[1] EXCEPT !.ev[e].stopped = TRUE, !.timeleft = 0]
             ELSE K' = [K1 EXCEPT !.ev[e].stopped = TRUE, !.timeleft = 0]

(* one handler of the event in progress, highest priority first; among equal
   priorities the lowest id (DetOrder) or any *)
SysDetachDue ==
  /\ K.cur.e # 0 /\ K.ev[K.cur.e].kind = 3 /\ K.ev[K.cur.e].ref # 0
  /\ K.ev[K.ev[K.cur.e].ref].kind = 9
  /\ LET c == K.ev[K.ev[K.cur.e].ref].ca IN c \in K.pendU /\ RootK(K, c) = K.cur.r

Invoke(h) ==
  /\ K.cur.e # 0 /\ h \in K.cur.todo /\ ~K.ev[K.cur.e].stopped
  /\ (SysDetachDue => G.H[h].prio >= 0)
  /\ \A h2 \in K.cur.todo : G.H[h2].prio <= G.H[h].prio
  /\ \A h2 \in K.cur.todo : (G.H[h2].prio = G.H[h].prio) => h <= h2
  /\ UNCHANGED hist
  /\ LET e  == K.cur.e
         K1 == Emit([K EXCEPT !.cur.todo = @ \ {h}, !.act = TRUE],
                    << [Line("inv") EXCEPT !.e = e, !.h = h, !.c = G.H[h].comp, !.n = K.ev[e].name] >>)
         isgen == IsGenScript(ScriptOf(G, h, K.ev[e].name))
         r  == IF isgen THEN <<K1, 0, "gen", -1>>
               ELSE RunOps([K1 EXCEPT !.inhandler = h, !.lastfired = 0], e, h, ScriptOf(G, h, K.ev[e].name), 0)
         K2 == [r[1] EXCEPT !.inhandler = 0]
     IN CASE r[3] = "gen" ->
             \* the handler returned a generator: nothing of its body has run yet
             LET g  == Len(K2.gens) + 1
                 K3 == Emit(K2, << [Line("ret") EXCEPT !.e = e, !.h = h, !.f = 2] >>)
             IN K' = [K3 EXCEPT !.gens = Append(@, [Gen0 EXCEPT !.kind = "h", !.e = e, !.h = h, !.comp = G.H[h].comp]),
                                !.ev[e].wH = @ + 1, !.ev[e].promise = TRUE,
                                !.tasks = @ \cup {<<e, g, 0, K.cur.r>>}]
          [] r[3] = "raise" ->
             LET K3 == Emit(K2, << [Line("ret") EXCEPT !.e = e, !.h = h, !.f = 1, !.v = -1] >>)
                 K4 == [K3 EXCEPT !.ev[e].results = Append(@, -1), !.ev[e].errors = TRUE, !.cur.err = TRUE]
                 K5 == IF (K4.ev[e].flags \div 2) % 2 = 1
                       THEN DoFire(K4, K4.cur.r, SuffixName(K4.ev[e].name, 2), K4.ev[e].ch, 0, 0, 2, e, 0, 0, 0, 0, FALSE)
                       ELSE K4
             IN K' = Inform(DoFire(K5, K5.cur.r, "exception", "", 0, 0, 5, e, 0, 0, 0, 0, FALSE), e)
          [] r[3] \in {"exit", "kbint"} ->
             \* _dispatcher: except SystemExit as e: self.stop(e.code) / except KeyboardInterrupt: self.stop()
             LET K3 == Emit(K2, << [Line("ret") EXCEPT !.e = e, !.h = h, !.f = 1, !.v = -1,
                                                        !.x = IF r[3] = "exit" THEN 1 ELSE 2] >>)
                 st == DoStop(K3, r[4], TRUE)
             IN IF ExitDeferred
                THEN K' = [st[1] EXCEPT !.run.exit = IF @ = -1 /\ K3.running THEN r[4] ELSE @]
                ELSE IF st[2]
                THEN \* stop(code) re-raises: the dispatch, the pass and the run loop are abandoned
                     K' = [st[1] EXCEPT !.cur = [e |-> 0, r |-> 0, todo |-> {}, err |-> FALSE], !.flushing = 0,
                                        !.ticking = 0, !.tickstage = "",
                                        !.run.raised = TRUE, !.run.exit = r[4],
                                        !.run.phase = IF @ = "off" THEN "off" ELSE "final", !.run.left = 1]
                ELSE K' = st[1]
          [] OTHER ->
             LET K3 == Emit(K2, << [Line("ret") EXCEPT !.e = e, !.h = h, !.v = r[2]] >>)
             IN K' = IF r[2] # 0 THEN Inform([K3 EXCEPT !.ev[e].results = Append(@, r[2])], e) ELSE K3

EndDispatch ==
  /\ K.cur.e # 0
  /\ IF K.ev[K.cur.e].stopped THEN TRUE ELSE (K.cur.todo = {} /\ ~SysDetachDue /\ ~IsGE)
  /\ UNCHANGED hist
  /\ LET e  == K.cur.e
         r  == K.cur.r
         K1 == Emit([K EXCEPT !.handling = 0],
                    << [Line("dend") EXCEPT !.e = e, !.c = r, !.n = K.ev[e].name, !.f = IF K.ev[e].stopped THEN 1 ELSE 0] >>)
         \* the component's own handler for prepare_unregister_complete runs inside this dispatch
         K2 == K1
         K3 == EventDone(K2, e, K.cur.err)
     IN K' = [K3 EXCEPT !.cur = [e |-> 0, r |-> 0, todo |-> {}, err |-> FALSE]]

(* BaseComponent._on_prepare_unregister_complete: a system handler that runs
   during the dispatch of <prepare_unregister>_complete addressed to component c *)
SysDetach ==
  /\ K.cur.e # 0 /\ K.ev[K.cur.e].kind = 3 /\ K.ev[K.cur.e].ref # 0
  /\ K.ev[K.ev[K.cur.e].ref].kind = 9
  /\ LET c == K.ev[K.ev[K.cur.e].ref].ca IN
     /\ c \in K.pendU /\ RootK(K, c) = K.cur.r
     /\ \A h \in K.cur.todo : G.H[h].prio < 0      \* it has priority 0: after higher ones, before lower ones
     /\ ~K.ev[K.cur.e].stopped
     /\ K' = DoDetachK(K, c, K.cur.e)
  /\ UNCHANGED hist

EndPass ==
  /\ K.flushing # 0 /\ K.cur.e = 0 /\ K.pq[K.flushing] = {}
  /\ K' = [K EXCEPT !.flushing = 0, !.ticking = 0, !.tickstage = ""]
  /\ UNCHANGED hist

Next ==
  \/ /\ Forced /\ DoExt(G.pre[NOps + 1])
  \/ /\ CanOp("fire") /\ \E c \in Range(G.firers), i \in DOMAIN G.ext : ExtFire(c, i)
  \/ /\ CanOp("cancel") /\ \E k \in 1..2 : ExtCancel(k)
  \/ /\ CanOp("reg") /\ \E c, p \in DOMAIN K.par : ExtReg(c, p)
  \/ /\ CanOp("unreg") /\ \E c \in DOMAIN K.par : ExtUnreg(c)
  \/ /\ CanOp("addh") /\ \E h \in Range(G.dyn) : ExtAddH(h)
  \/ /\ CanOp("rmh") /\ \E h \in Range(G.dyn) : ExtRmH(h)
  \/ /\ CanOp("flush") /\ \E c \in Range(G.flushers) : ExtFlush(c)
  \/ /\ CanOp("run") /\ \E c \in Range(G.flushers) : ExtRun(c)
  \/ /\ CanOp("stop") /\ \E c \in Range(G.flushers) : ExtStop(c)
  \/ /\ CanOp("tick") /\ \E c \in Range(G.flushers) : ExtTick(c)
  \/ RunStep
  \/ StepTask \/ TickFlush
  \/ Fallback
  \/ StartQuiesce \/ QTick \/ QDone
  \/ BeginDispatch
  \/ \E h \in K.cur.todo : Invoke(h)
  \/ SysDetach
  \/ EndDispatch
  \/ EndPass

Init == /\ hist = <<>>
        /\ \E i \in DOMAIN Programs : K = Emit(K0(Programs[i]), ProjLines(K0(Programs[i])))

Spec == Init /\ [][Next]_vars

-----------------------------------------------------------------------------
(* the kernel properties, as the monitor's verdict on every behaviour *)
ConformsC01 == K.bad["C01"][1] = ""
ConformsC02 == K.bad["C02"][1] = ""
ConformsC04 == K.bad["C04"][1] = ""
ConformsC05 == K.bad["C05"][1] = ""
ConformsC06 == K.bad["C06"][1] = ""
ConformsC07 == K.bad["C07"][1] = ""
ConformsC08 == K.bad["C08"][1] = ""
ConformsM   == K.bad["M"][1] = ""

(* direct state invariants *)
QueueOnlyAtRoots == \A c \in DOMAIN K.par : K.par[c] # c => (K.queue[c] = <<>> /\ K.pq[c] = {})
CacheCoherent ==
  \A r \in DOMAIN K.par : (K.par[r] = r /\ ~K.refresh[r]) =>
     \A t \in K.cache[r] :
        t[3] = { h \in K.live : RootK(K, G.H[h].comp) = r /\ Declared(G, h, t[1]) /\ Listens(G, h, t[2]) }
EffectsNonNegative == \A e \in DOMAIN K.ev : K.ev[e].effects >= 0

(* at the end of the driver's quiesce(): every dispatched, finished event that asked for
   completion has got it *)
CompleteDelivered ==
  K.done => \A e \in DOMAIN K.ev :
      ((K.ev[e].flags \div 4) % 2 = 1 /\ K.S.ev[e].st = 3 /\ K.S.ev[e].gens = 0) => K.S.ev[e].ncompl = 1
NoTaskResidue == K.done => (K.tasks = {} /\ \A w \in DOMAIN K.gens : ~K.gens[w].armed)

(* history generation: every completed history is printed once *)
Compact(ln) == <<ln.k, ln.e, ln.h, ln.c, ln.n, ln.ch, ln.p, ln.o, ln.x, ln.y, ln.v, ln.f, ln.d>>
ReportHist == K.done => PrintT(<<"HIST", K.g.id, hist, [i \in DOMAIN K.out |-> Compact(K.out[i])], K.tied>>)

View == <<[K EXCEPT !.out = <<>>, !.nl = 0], Len(hist)>>
=============================================================================
