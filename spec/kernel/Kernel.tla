------------------------------- MODULE Kernel -------------------------------
(* Generative model of the circuits event kernel (circuits/core/manager.py,
   components.py, events.py, values.py): component forest, handler tables
   with the per-root handler cache, per-root event queue with priority
   passes, dispatch with handler priorities / stop / cancel, values and
   feedback events (_eventDone: done, success, failure, exception, complete
   via cause/effects counting), register / two-stage unregister.

   It is implementation-shaped: one action per critical section of the code,
   state named after the attributes it models.  Handler behaviour is static
   data (scripts), chosen with the program in Init.  Every action emits the
   trace lines harness/universe.py records from the real classes and feeds
   them to the monitor of KernelOps (properties C01, C02, C04, C05, C07);
   `Conforms` says the monitor never flags the model.  `hist` is the
   environment history a replay drives.

   Variants (constants) model the pinned code's known deviations so that TLC
   exhibits them; with all variants off the model is the intended algorithm:
     StaleCache      detaching a subtree does not invalidate the detached
                     component's own handler cache      (C01, pinned tree)
     CancelLeak      a cancelled event never decrements its cause's effects
                     counter                             (C05, pinned tree)   *)
EXTENDS KernelOps, TLC

CONSTANTS Programs,     \* sequence of programs (records), see harness/kernel.py
          StaleCache, CancelLeak,
          KeepOut,      \* BOOLEAN: keep every emitted line in K.out (history generation) or only count them
          RunMonitor    \* BOOLEAN: feed emitted lines to the KernelOps monitor (off for history generation)

VARIABLES K, hist
vars == <<K, hist>>

-----------------------------------------------------------------------------
Line(k) == [k |-> k, e |-> 0, h |-> 0, c |-> 0, n |-> "", ch |-> "", p |-> 0, o |-> 0,
            x |-> 0, y |-> 0, v |-> 0, f |-> 0, d |-> 0]

MEv0 == [name |-> "", ch |-> "", prio |-> 0, flags |-> 0, cancelled |-> FALSE, stopped |-> FALSE,
         cause |-> 0, effects |-> 0, kind |-> 0, ref |-> 0, ca |-> 0, cb |-> 0,
         results |-> <<>>, errors |-> FALSE, ext |-> FALSE, tracked |-> FALSE,
         firer |-> 0]          \* component whose fire() created the event (Value.manager)

K0(G) == [g        |-> G,
          par      |-> [c \in 1..Len(G.chan) |-> c],
          pendU    |-> {},
          live     |-> Range(G.live0),
          cache    |-> [c \in 1..Len(G.chan) |-> {}],      \* set of <<name, ch, handler set>>
          refresh  |-> [c \in 1..Len(G.chan) |-> FALSE],
          queue    |-> [c \in 1..Len(G.chan) |-> <<>>],   \* _queue._queue: entries <<priority, counter, event>>
          ctr      |-> [c \in 1..Len(G.chan) |-> 0],      \* _queue._counter (per manager!)
          pq       |-> [c \in 1..Len(G.chan) |-> {}],     \* _queue._priority_queue (rest of the pass)
          tied     |-> FALSE,                              \* some pop had several minimal entries (order unspecified)
          flushing |-> 0,                                   \* root whose flush() is in progress
          ev       |-> <<>>,
          handling |-> 0,
          cur      |-> [e |-> 0, r |-> 0, todo |-> {}, err |-> FALSE],
          lastfired|-> 0,
          extfired |-> <<>>,
          S        |-> S0(G),
          bad      |-> Bad0,
          out      |-> <<>>,
          nl       |-> 0,
          quiescing|-> FALSE,
          done     |-> FALSE]

RootK(Kx, c) == RootOf(Kx.par, c, Len(Kx.par))

(* run new lines through the monitor *)
RECURSIVE Feed(_, _, _, _, _)
Feed(G, S, bad, lines, l) ==
  IF lines = <<>> THEN <<S, bad>>
  ELSE Feed(G, Apply(G, S, Head(lines)), UpdBad(bad, Fails(G, S, Head(lines)), l), Tail(lines), l + 1)

Emit(Kx, lines) ==
  LET r == IF RunMonitor THEN Feed(Kx.g, Kx.S, Kx.bad, lines, Kx.nl + 1) ELSE <<Kx.S, Kx.bad>>
  IN [Kx EXCEPT !.S = r[1], !.bad = r[2], !.out = IF KeepOut THEN @ \o lines ELSE @, !.nl = @ + Len(lines)]

-----------------------------------------------------------------------------
(* projection of the object graph, as harness/universe.py logs it *)
ProjLines(Kx) ==
  [c \in 1..Len(Kx.par) |->
     [Line("proj") EXCEPT !.c = c, !.x = Kx.par[c], !.y = RootK(Kx, c), !.f = 1,
                          !.d = Cardinality({k \in DOMAIN Kx.par : k # c /\ Kx.par[k] = c}),
                          !.v = IF c \in Kx.pendU THEN 1 ELSE 0]]

RECURSIVE ValueLines(_, _)
ValueLines(Kx, e) ==
  IF e > Len(Kx.ev) THEN <<>>
  ELSE IF Kx.ev[e].kind # 0 THEN ValueLines(Kx, e + 1)
  ELSE LET res == Kx.ev[e].results IN
       [i \in 1..Len(res) |-> [Line("vitem") EXCEPT !.e = e, !.v = res[i]]]
       \o << [Line("vend") EXCEPT !.e = e, !.f = IF Kx.ev[e].errors THEN 1 ELSE 0, !.d = Len(res),
                                   !.x = IF Len(res) > 1 THEN 1 ELSE 0, !.y = IF Len(res) > 0 THEN 1 ELSE 0,
                                   !.n = Kx.ev[e].name] >>
       \o ValueLines(Kx, e + 1)

(* Manager._fire + fireEvent *)
FlagsOf(spec) == spec.flags
DoFire(Kx, c, name, ch0, prio, flags, kind, ref, ca, cb, oe, oh, ext) ==
  LET G    == Kx.g
      r    == RootK(Kx, c)
      eid  == Len(Kx.ev) + 1
      ch   == IF ch0 = "" THEN G.chan[c] ELSE ch0
      trk  == Kx.handling # 0 /\ Kx.cur.r = r /\ Kx.ev[Kx.handling].cause # 0
      rec  == [MEv0 EXCEPT !.name = name, !.ch = ch, !.prio = prio, !.flags = flags, !.kind = kind,
                           !.ref = ref, !.ca = ca, !.cb = cb, !.ext = ext, !.firer = c,
                           !.cause = IF trk THEN Kx.handling ELSE 0,
                           !.effects = IF trk THEN 1 ELSE 0]
      K1   == [Kx EXCEPT !.ev = Append(@, rec), !.queue[r] = Append(@, <<prio, Kx.ctr[r], eid>>),
                       !.ctr[r] = @ + 1, !.lastfired = eid]
      K2   == IF trk THEN [K1 EXCEPT !.ev[Kx.handling].effects = @ + 1] ELSE K1
  IN Emit(K2, << [Line("fire") EXCEPT !.e = eid, !.n = name, !.ch = ch, !.p = prio, !.c = r, !.o = oe, !.h = oh,
                                       !.f = flags, !.x = ref, !.y = kind, !.v = ca, !.d = cb] >>)

SuffixName(name, kind) ==
  CASE kind = 1 -> name \o "_success"
    [] kind = 2 -> name \o "_failure"
    [] kind = 3 -> name \o "_complete"
    [] kind = 6 -> name \o "_value_changed"
    [] OTHER -> name

(* structural operations *)
RECURSIVE SubtreeK(_, _)
SubtreeK(Kx, top) == { c \in DOMAIN Kx.par : InSubtree(Kx.par, c, top, Len(Kx.par)) }

DoRegister(Kx, c, p, oe, oh, isop) ==
  LET r  == RootK(Kx, p)
      K1 == [Kx EXCEPT !.par[c] = p,
                       !.queue[r] = IF r = c THEN @ ELSE @ \o Kx.queue[c],
                       !.queue[c] = IF r = c THEN @ ELSE <<>>,
                       !.refresh[r] = TRUE]
      K2 == Emit(K1, << [Line(IF isop THEN "op" ELSE "api") EXCEPT !.n = "reg", !.c = c, !.x = p, !.e = oe, !.h = oh] >>)
  IN DoFire(K2, c, "registered", "", 0, 0, 7, 0, c, p, oe, oh, FALSE)

DoUnregister(Kx, c, oe, oh, isop) ==
  LET K1 == Emit(Kx, << [Line(IF isop THEN "op" ELSE "api") EXCEPT !.n = "unreg", !.c = c, !.e = oe, !.h = oh] >>)
  IN IF c \in Kx.pendU \/ Kx.par[c] = c THEN K1
     ELSE LET r  == RootK(Kx, c)
              K2 == [K1 EXCEPT !.pendU = @ \cup {c}, !.refresh[r] = TRUE]
          IN DoFire(K2, c, "prepare_unregister", "", 0, 4, 9, 0, c, 0, oe, oh, FALSE)

DoAddHandler(Kx, h, oe, oh, isop) ==
  LET c == Kx.g.H[h].comp
      K1 == [Kx EXCEPT !.live = @ \cup {h}, !.refresh[RootK(Kx, c)] = TRUE]
  IN Emit(K1, << [Line(IF isop THEN "op" ELSE "api") EXCEPT !.n = "addh", !.x = h, !.c = c, !.e = oe, !.h = oh] >>)

DoRemoveHandler(Kx, h, oe, oh, isop) ==
  LET c == Kx.g.H[h].comp
      K1 == [Kx EXCEPT !.live = @ \ {h}, !.refresh[RootK(Kx, c)] = TRUE]
  IN Emit(K1, << [Line(IF isop THEN "op" ELSE "api") EXCEPT !.n = "rmh", !.x = h, !.c = c, !.e = oe, !.h = oh] >>)

(* BaseComponent._do_prepare_unregister_complete *)
DoDetachK(Kx, c, oe) ==
  IF Kx.par[c] = c THEN [Kx EXCEPT !.pendU = @ \ {c}]
  ELSE LET p  == Kx.par[c]
           r  == RootK(Kx, c)
           K1 == DoFire([Kx EXCEPT !.pendU = @ \ {c}], c, "unregistered", "", 0, 0, 8, 0, c, p, 0, 0, FALSE)
           K2 == [K1 EXCEPT !.par[c] = c, !.refresh[r] = TRUE,
                            !.refresh[c] = IF StaleCache THEN @ ELSE TRUE]
       IN K2

-----------------------------------------------------------------------------
(* a handler's script, run atomically inside the dispatch of event e *)
ScriptOf(G, h, name) ==
  LET sc == G.H[h].script
      hits == { i \in DOMAIN sc : sc[i][1] = name }
  IN IF hits = {} THEN <<>> ELSE sc[CHOOSE i \in hits : TRUE][2]

RECURSIVE RunOps(_, _, _, _, _)
(* returns <<K, value, raised>> *)
RunOps(Kx, e, h, ops, acc) ==
  IF ops = <<>> THEN <<Kx, acc, FALSE>>
  ELSE LET op == Head(ops)
           c  == Kx.g.H[h].comp
           opl(n) == [Line("op") EXCEPT !.e = e, !.h = h, !.n = n]
       IN CASE op[1] = "fire" ->
                 LET sp == op[2]
                     K1 == Emit(Kx, <<opl("fire")>>)
                     K2 == DoFire(K1, IF sp.on = 0 THEN c ELSE sp.on, sp.name, sp.ch, sp.prio, sp.flags, 0, 0, 0, 0, e, h, FALSE)
                 IN RunOps(K2, e, h, Tail(ops), acc)
            [] op[1] = "cancel_last" ->
                 IF Kx.lastfired = 0 THEN RunOps(Kx, e, h, Tail(ops), acc)
                 ELSE RunOps(Emit([Kx EXCEPT !.ev[Kx.lastfired].cancelled = TRUE],
                                  << [opl("cancel") EXCEPT !.x = Kx.lastfired] >>), e, h, Tail(ops), acc)
            [] op[1] = "stop" ->
                 RunOps(Emit([Kx EXCEPT !.ev[e].stopped = TRUE], <<opl("stop")>>), e, h, Tail(ops), acc)
            [] op[1] = "ret" -> RunOps(Kx, e, h, Tail(ops), op[2])
            [] op[1] = "raise" -> <<Emit(Kx, <<opl("raise")>>), 0, TRUE>>
            [] op[1] = "addh" -> RunOps(DoAddHandler(Kx, op[2], e, h, TRUE), e, h, Tail(ops), acc)
            [] op[1] = "rmh" -> RunOps(DoRemoveHandler(Kx, op[2], e, h, TRUE), e, h, Tail(ops), acc)
            [] op[1] = "reg" -> RunOps(DoRegister(Kx, op[2], op[3], e, h, TRUE), e, h, Tail(ops), acc)
            [] op[1] = "unreg" -> RunOps(DoUnregister(Kx, op[2], e, h, TRUE), e, h, Tail(ops), acc)
            [] OTHER -> RunOps(Kx, e, h, Tail(ops), acc)

-----------------------------------------------------------------------------
(* Manager._eventDone: success, then complete detection by cause/effects *)
RECURSIVE CompleteChain(_, _)
CompleteChain(Kx, e) ==
  IF Kx.ev[e].cause = 0 THEN Kx
  ELSE LET K1 == [Kx EXCEPT !.ev[e].effects = @ - 1]
       IN IF K1.ev[e].effects > 0 THEN K1
          ELSE LET cause == K1.ev[e].cause
                   K2 == IF (K1.ev[e].flags \div 4) % 2 = 1
                         THEN DoFire(K1, K1.cur.r, SuffixName(K1.ev[e].name, 3),
                                     IF K1.ev[e].kind = 9 THEN K1.g.inst[K1.ev[e].ca] ELSE K1.ev[e].ch,
                                     0, 0, 3, e, 0, 0, 0, 0, FALSE)
                         ELSE K1
                   K3 == [K2 EXCEPT !.ev[e].cause = 0, !.ev[e].effects = 0]
               IN IF cause = e THEN K3 ELSE CompleteChain(K3, cause)

EventDone(Kx, e, err) ==
  LET K1 == IF ~err /\ Kx.ev[e].flags % 2 = 1
            THEN DoFire(Kx, Kx.cur.r, SuffixName(Kx.ev[e].name, 1), Kx.ev[e].ch, 0, 0, 1, e, 0, 0, 0, 0, FALSE)
            ELSE Kx
  IN CompleteChain(K1, e)

-----------------------------------------------------------------------------
(* environment *)
G == K.g
NOps == Len(hist)
LastOp == IF hist = <<>> THEN "" ELSE hist[Len(hist)][1]
Idle == K.cur.e = 0 /\ K.flushing = 0
CanOp(kind) == Idle /\ ~K.quiescing /\ NOps < G.maxops /\ kind \in Range(G.ops)
              /\ (NOps >= Len(G.pre))           \* the forced prefix comes first

Forced == Idle /\ ~K.quiescing /\ NOps < Len(G.pre)

(* the driver's final quiesce(): tick the lowest root that has something queued
   until nothing is queued anywhere, then project structure and values *)
BusyRoots == { c \in DOMAIN K.par : K.par[c] = c /\ K.queue[c] # <<>> }
StartQuiesce ==
  /\ Idle /\ ~K.quiescing /\ NOps >= Len(G.pre)
  /\ hist' = Append(hist, <<"quiesce", 0, 0, 0>>)
  /\ K' = [K EXCEPT !.quiescing = TRUE]
QTick ==
  /\ K.quiescing /\ Idle /\ ~K.done /\ BusyRoots # {}
  /\ UNCHANGED hist
  /\ LET r == CHOOSE c \in BusyRoots : \A c2 \in BusyRoots : c <= c2
     IN K' = [Emit(K, << [Line("api") EXCEPT !.n = "tick", !.c = r] >>)
                EXCEPT !.flushing = r, !.pq[r] = Range(K.queue[r]), !.queue[r] = <<>>]
QDone ==
  /\ K.quiescing /\ Idle /\ ~K.done /\ BusyRoots = {}
  /\ UNCHANGED hist
  /\ K' = [Emit(K, ProjLines(K) \o ValueLines(K, 1) \o << Line("quiet") >>) EXCEPT !.done = TRUE]

ExtFire(c, i) ==
  /\ hist' = Append(hist, <<"fire", c, i, 0>>)
  /\ LET sp == G.ext[i]
         K1 == Emit(K, << [Line("api") EXCEPT !.n = "fire", !.c = c] >>)
         K2 == DoFire(K1, c, sp.name, sp.ch, sp.prio, sp.flags, 0, 0, 0, 0, 0, 0, TRUE)
     IN K' = [K2 EXCEPT !.extfired = Append(@, Len(K.ev) + 1)]

ExtCancel(k) ==
  /\ k \in DOMAIN K.extfired
  /\ hist' = Append(hist, <<"cancel", k, 0, 0>>)
  /\ LET e == K.extfired[k]
     IN K' = Emit([K EXCEPT !.ev[e].cancelled = TRUE], << [Line("api") EXCEPT !.n = "cancel", !.e = e] >>)

ExtReg(c, p) ==
  /\ K.par[c] = c /\ c \notin K.pendU /\ c # p
  /\ ~InSubtree(K.par, p, c, Len(K.par))
  /\ hist' = Append(hist, <<"reg", c, p, 0>>)
  /\ K' = DoRegister(K, c, p, 0, 0, FALSE)

ExtUnreg(c) ==
  /\ K.par[c] # c /\ c \notin K.pendU
  /\ hist' = Append(hist, <<"unreg", c, 0, 0>>)
  /\ K' = DoUnregister(K, c, 0, 0, FALSE)

ExtAddH(h) ==
  /\ h \notin K.live
  /\ hist' = Append(hist, <<"addh", h, 0, 0>>)
  /\ K' = DoAddHandler(K, h, 0, 0, FALSE)

ExtRmH(h) ==
  /\ h \in K.live
  /\ hist' = Append(hist, <<"rmh", h, 0, 0>>)
  /\ K' = DoRemoveHandler(K, h, 0, 0, FALSE)

(* flush() on any component delegates to its root: one pass *)
ExtFlush(c) ==
  /\ LET r == RootK(K, c) IN
     /\ K.queue[r] # <<>>
     /\ hist' = Append(hist, <<"flush", c, 0, 0>>)
     /\ K' = [Emit(K, << [Line("api") EXCEPT !.n = "flush", !.c = c] >>)
                EXCEPT !.flushing = r, !.pq[r] = Range(K.queue[r]), !.queue[r] = <<>>]

DoExt(op) ==
  CASE op[1] = "fire"   -> ExtFire(op[2], op[3])
    [] op[1] = "cancel" -> ExtCancel(op[2])
    [] op[1] = "reg"    -> ExtReg(op[2], op[3])
    [] op[1] = "unreg"  -> ExtUnreg(op[2])
    [] op[1] = "addh"   -> ExtAddH(op[2])
    [] op[1] = "rmh"    -> ExtRmH(op[2])
    [] op[1] = "flush"  -> ExtFlush(op[2])

-----------------------------------------------------------------------------
(* system: the pass in progress *)
(* heappop: minimal (priority, counter); entries migrated from another manager's queue by
   register() keep that manager's counters, so ties are possible and their order is unspecified *)
Mins(Kx, r) == { t \in Kx.pq[r] : \A t2 \in Kx.pq[r] :
                   \/ t[1] < t2[1]
                   \/ t[1] = t2[1] /\ t[2] <= t2[2] }

HandlersFor(Kx, r, e) ==
  LET name == Kx.ev[e].name
      ch   == Kx.ev[e].ch
      fresh == { h \in Kx.live : RootK(Kx, Kx.g.H[h].comp) = r /\ Declared(Kx.g, h, name) /\ Listens(Kx.g, h, ch) }
      hit  == { t \in Kx.cache[r] : t[1] = name /\ t[2] = ch }
  IN IF Kx.refresh[r] \/ hit = {} THEN fresh ELSE (CHOOSE t \in hit : TRUE)[3]

(* _dispatcher: pop the next event of the pass, look the handlers up *)
BeginDispatch ==
  /\ K.flushing # 0 /\ K.cur.e = 0 /\ K.pq[K.flushing] # {}
  /\ UNCHANGED hist
  /\ \E t \in Mins(K, K.flushing) :
     LET r  == K.flushing
         e  == t[3]
         K0_ == [K EXCEPT !.pq[r] = @ \ {t}, !.tied = @ \/ Cardinality(Mins(K, r)) > 1]
         K1 == Emit(K0_,
                    << [Line("disp") EXCEPT !.e = e, !.c = r, !.n = K.ev[e].name, !.f = IF K.ev[e].cancelled THEN 1 ELSE 0] >>)
     IN IF K.ev[e].cancelled
        THEN K' = (IF CancelLeak \/ K.ev[e].cause = 0 THEN K1
                   ELSE CompleteChain([K1 EXCEPT !.cur.r = r], e))
        ELSE LET hs == HandlersFor(K, r, e)
                 K2 == [K1 EXCEPT !.cache[r] = (IF K.refresh[r] THEN {} ELSE @) \cup {<<K.ev[e].name, K.ev[e].ch, hs>>},
                                  !.refresh[r] = FALSE,
                                  !.handling = e,
                                  !.cur = [e |-> e, r |-> r, todo |-> hs, err |-> FALSE],
                                  !.ev[e].cause = IF (K.ev[e].flags \div 4) % 2 = 1 /\ K.ev[e].cause = 0 THEN e ELSE @,
                                  !.ev[e].effects = IF (K.ev[e].flags \div 4) % 2 = 1 THEN 1 ELSE @]
             IN K' = K2

(* Value.setValue -> inform(): with notify set, every stored result announces itself
   with <name>_value_changed, fired by the component that fired the event, on its own
   instance channel *)
Inform(Kx, e) ==
  IF (Kx.ev[e].flags \div 8) % 2 = 1
  THEN DoFire(Kx, Kx.ev[e].firer, SuffixName(Kx.ev[e].name, 6), Kx.g.inst[Kx.ev[e].firer], 0, 0, 6, e, 0, 0, 0, 0, FALSE)
  ELSE Kx

(* one handler of the event in progress, highest priority first; among equal
   priorities the lowest id (DetOrder) or any *)
SysDetachDue ==
  /\ K.cur.e # 0 /\ K.ev[K.cur.e].kind = 3 /\ K.ev[K.cur.e].ref # 0
  /\ K.ev[K.ev[K.cur.e].ref].kind = 9
  /\ LET c == K.ev[K.ev[K.cur.e].ref].ca IN c \in K.pendU /\ RootK(K, c) = K.cur.r

Invoke(h) ==
  /\ K.cur.e # 0 /\ h \in K.cur.todo /\ ~K.ev[K.cur.e].stopped
  /\ (SysDetachDue => G.H[h].prio >= 0)
  /\ \A h2 \in K.cur.todo : G.H[h2].prio <= G.H[h].prio
  /\ \A h2 \in K.cur.todo : (G.H[h2].prio = G.H[h].prio) => h <= h2
  /\ UNCHANGED hist
  /\ LET e  == K.cur.e
         K1 == Emit([K EXCEPT !.cur.todo = @ \ {h}],
                    << [Line("inv") EXCEPT !.e = e, !.h = h, !.c = G.H[h].comp, !.n = K.ev[e].name] >>)
         r  == RunOps(K1, e, h, ScriptOf(G, h, K.ev[e].name), 0)
         K2 == r[1]
     IN IF r[3]   \* raised
        THEN LET K3 == Emit(K2, << [Line("ret") EXCEPT !.e = e, !.h = h, !.f = 1, !.v = -1] >>)
                 K4 == [K3 EXCEPT !.ev[e].results = Append(@, -1), !.ev[e].errors = TRUE, !.cur.err = TRUE]
                 K5 == IF (K4.ev[e].flags \div 2) % 2 = 1
                       THEN DoFire(K4, K4.cur.r, SuffixName(K4.ev[e].name, 2), K4.ev[e].ch, 0, 0, 2, e, 0, 0, 0, 0, FALSE)
                       ELSE K4
             IN K' = Inform(DoFire(K5, K5.cur.r, "exception", "", 0, 0, 5, e, 0, 0, 0, 0, FALSE), e)
        ELSE LET K3 == Emit(K2, << [Line("ret") EXCEPT !.e = e, !.h = h, !.v = r[2]] >>)
             IN K' = IF r[2] # 0 THEN Inform([K3 EXCEPT !.ev[e].results = Append(@, r[2])], e) ELSE K3

EndDispatch ==
  /\ K.cur.e # 0
  /\ IF K.ev[K.cur.e].stopped THEN TRUE ELSE (K.cur.todo = {} /\ ~SysDetachDue)
  /\ UNCHANGED hist
  /\ LET e  == K.cur.e
         r  == K.cur.r
         K1 == Emit([K EXCEPT !.handling = 0],
                    << [Line("dend") EXCEPT !.e = e, !.c = r, !.n = K.ev[e].name, !.f = IF K.ev[e].stopped THEN 1 ELSE 0] >>)
         \* the component's own handler for prepare_unregister_complete runs inside this dispatch
         K2 == K1
         K3 == EventDone(K2, e, K.cur.err)
     IN K' = [K3 EXCEPT !.cur = [e |-> 0, r |-> 0, todo |-> {}, err |-> FALSE]]

(* BaseComponent._on_prepare_unregister_complete: a system handler that runs
   during the dispatch of <prepare_unregister>_complete addressed to component c *)
SysDetach ==
  /\ K.cur.e # 0 /\ K.ev[K.cur.e].kind = 3 /\ K.ev[K.cur.e].ref # 0
  /\ K.ev[K.ev[K.cur.e].ref].kind = 9
  /\ LET c == K.ev[K.ev[K.cur.e].ref].ca IN
     /\ c \in K.pendU /\ RootK(K, c) = K.cur.r
     /\ \A h \in K.cur.todo : G.H[h].prio < 0      \* it has priority 0: after higher ones, before lower ones
     /\ ~K.ev[K.cur.e].stopped
     /\ K' = DoDetachK(K, c, K.cur.e)
  /\ UNCHANGED hist

EndPass ==
  /\ K.flushing # 0 /\ K.cur.e = 0 /\ K.pq[K.flushing] = {}
  /\ K' = [K EXCEPT !.flushing = 0]
  /\ UNCHANGED hist

Next ==
  \/ /\ Forced /\ DoExt(G.pre[NOps + 1])
  \/ /\ CanOp("fire") /\ \E c \in Range(G.firers), i \in DOMAIN G.ext : ExtFire(c, i)
  \/ /\ CanOp("cancel") /\ \E k \in 1..2 : ExtCancel(k)
  \/ /\ CanOp("reg") /\ \E c, p \in DOMAIN K.par : ExtReg(c, p)
  \/ /\ CanOp("unreg") /\ \E c \in DOMAIN K.par : ExtUnreg(c)
  \/ /\ CanOp("addh") /\ \E h \in Range(G.dyn) : ExtAddH(h)
  \/ /\ CanOp("rmh") /\ \E h \in Range(G.dyn) : ExtRmH(h)
  \/ /\ CanOp("flush") /\ \E c \in Range(G.flushers) : ExtFlush(c)
  \/ StartQuiesce \/ QTick \/ QDone
  \/ BeginDispatch
  \/ \E h \in K.cur.todo : Invoke(h)
  \/ SysDetach
  \/ EndDispatch
  \/ EndPass

Init == /\ hist = <<>>
        /\ \E i \in DOMAIN Programs : K = Emit(K0(Programs[i]), ProjLines(K0(Programs[i])))

Spec == Init /\ [][Next]_vars

-----------------------------------------------------------------------------
(* the kernel properties, as the monitor's verdict on every behaviour *)
ConformsC01 == K.bad["C01"][1] = ""
ConformsC02 == K.bad["C02"][1] = ""
ConformsC04 == K.bad["C04"][1] = ""
ConformsC05 == K.bad["C05"][1] = ""
ConformsC07 == K.bad["C07"][1] = ""
ConformsM   == K.bad["M"][1] = ""

(* direct state invariants *)
QueueOnlyAtRoots == \A c \in DOMAIN K.par : K.par[c] # c => (K.queue[c] = <<>> /\ K.pq[c] = {})
CacheCoherent ==
  \A r \in DOMAIN K.par : (K.par[r] = r /\ ~K.refresh[r]) =>
     \A t \in K.cache[r] :
        t[3] = { h \in K.live : RootK(K, G.H[h].comp) = r /\ Declared(G, h, t[1]) /\ Listens(G, h, t[2]) }
EffectsNonNegative == \A e \in DOMAIN K.ev : K.ev[e].effects >= 0

(* quiescent: nothing queued anywhere, no dispatch in progress *)
Quiescent == Idle /\ \A c \in DOMAIN K.par : K.queue[c] = <<>>
CompleteDelivered ==
  Quiescent => \A e \in DOMAIN K.ev :
      ((K.ev[e].flags \div 4) % 2 = 1 /\ K.S.ev[e].st = 3) => K.S.ev[e].ncompl = 1

(* history generation: every completed history is printed once *)
Compact(ln) == <<ln.k, ln.e, ln.h, ln.c, ln.n, ln.ch, ln.p, ln.o, ln.x, ln.y, ln.v, ln.f, ln.d>>
ReportHist == K.done => PrintT(<<"HIST", K.g.id, hist, [i \in DOMAIN K.out |-> Compact(K.out[i])], K.tied>>)

View == <<[K EXCEPT !.out = <<>>, !.nl = 0], Len(hist)>>
=============================================================================
