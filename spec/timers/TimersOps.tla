---------------------------- MODULE TimersOps ----------------------------
(* C09 - the property, as a monitor over trace lines.

   Time is an integer number of grid units; whole seconds are the multiples
   of `sec` units (4 in the model, whose unit is 0.25 s; a trace recorded on a
   finer virtual clock says so in its first line).  A trace line is a record
   [k, t, a, b, now]; `now` is the virtual clock when the line was logged, t a
   timer id (0 if none):

     k="cfg"      a = grid units per second of this trace
     k="create"   timer t created with interval a (units), b = 1 iff persistent
     k="createat" timer t created with the absolute deadline a (units, may lie
                  in the past or between whole seconds), b = 1 iff persistent
     k="reset"    reset() called on t; a = new interval, -1 = keep the interval
     k="unreg"    unregister() called on t by the environment
     k="gone"     the `unregistered` event of t was dispatched
     k="tick"     Manager.tick() entered (informative)
     k="gbeg"     a generate_events pass begins (observer handler, priority 1000)
     k="fire"     timer t fired its event (the event entered the queue)
     k="gend"     the pass is over (observer handler, priority -50, just before
                  the fallback generator); a = time budget left (units, rounded
                  up; -1 = unlimited)
     k="gcut"     a pass that began never reached the observer at priority -50:
                  some handler stopped the generate_events event (logged by the
                  driver when tick() returns; now = the time of the pass).  For
                  the monitor it ends the pass exactly like "gend": every live
                  timer that was due must have fired in it
     k="disp"     the event of timer t was dispatched to the application
     k="idle"     the idle wait: a = requested timeout (units, rounded up;
                  Untimed for the fallback generator's wait(10000)), b = granted
     k="stall"    the loop was run with full-length waits for a iterations and
                  never came to rest (never asked for an untimed wait)
     k="end"      end of the run: a = 1 iff t is still in the component tree

   What the property requires of a timer is kept as an interval of admissible
   expiries [lo, hi]: firing before lo is early, a generate_events pass at or
   after hi that does not fire it is a miss, an idle wait requested beyond hi
   is an oversleep.  For an interval timer lo = hi = arming time + interval.
   A datetime deadline D "counts at whole-second resolution": its sub-second
   part is discarded, lo = hi = D rounded down to a whole second (the timer
   must neither fire before that second nor be left waiting for the
   microseconds of D).

   "until it is unregistered, after which it never fires again": the timer is
   unregistered when unregister() is called on it (the documented first stage
   "prevents it from receiving further events"); a firing after that call is a
   violation whether or not the removal from the tree has completed yet.  An
   event already fired and still queued may be *dispatched* afterwards.

   Fail(P, ln) names the clause the line violates ("" if none); Apply(P, ln)
   is the next monitor state.  Used by Timers.tla and TimersTrace.tla alike. *)
EXTENDS Integers, Sequences

Untimed == 40000     \* wait(10000 s) in units

FloorS(x, s) == (x \div s) * s
CeilS(x, s)  == ((x + s - 1) \div s) * s
Floor4(x) == FloorS(x, 4)

Line(k, t, a, b, now) == [k |-> k, t |-> t, a |-> a, b |-> b, now |-> now]

(* per timer: st "live" | "leaving" (unregister() called, or a one-shot that
   has fired) | "gone"; src = what armed the current expiry: 0 creation,
   1 re-arming after a firing, 2 reset; nf = firings (capped at 2);
   pend = fired events not yet dispatched; fired = fired in the current pass *)
P0 == [tm |-> <<>>, sec |-> 4]

Known(P, t) == t \in DOMAIN P.tm

NewTimer(per, ivlo, ivhi, now) ==
  [st |-> "live", per |-> per, ivlo |-> ivlo, ivhi |-> ivhi,
   lo |-> now + ivlo, hi |-> now + ivhi, src |-> 0, nf |-> 0, pend |-> 0, fired |-> FALSE]

SetTm(P, t, r) == [P EXCEPT !.tm = [x \in (DOMAIN P.tm) \cup {t} |-> IF x = t THEN r ELSE P.tm[x]]]

Fail(P, ln) ==
  CASE ln.k = "fire" ->
         IF ~Known(P, ln.t) THEN "C09.unknown_timer"
         ELSE LET r == P.tm[ln.t] IN
           IF r.per = 0 /\ r.nf > 0 THEN "C09.oneshot_twice"
           ELSE IF r.st # "live" THEN "C09.after_unregister"
           ELSE IF ln.now < r.lo THEN
                  (IF r.src = 1 THEN "C09.spacing" ELSE IF r.src = 2 THEN "C09.reset" ELSE "C09.early")
           ELSE ""
    [] ln.k = "disp" ->
         IF ~Known(P, ln.t) THEN "C09.unknown_timer"
         ELSE IF P.tm[ln.t].pend = 0 THEN "C09.spurious_dispatch"
         ELSE ""
    [] ln.k \in {"gend", "gcut"} ->
         IF \E t \in DOMAIN P.tm : P.tm[t].st = "live" /\ ln.now >= P.tm[t].hi /\ ~P.tm[t].fired
         THEN "C09.missed" ELSE ""
    [] ln.k = "idle" ->
         IF \E t \in DOMAIN P.tm : P.tm[t].st = "live" /\ ln.now + ln.a > P.tm[t].hi
         THEN "C09.oversleep" ELSE ""
    [] ln.k = "stall" ->
         \* a pending timer that is never served although the loop goes round and
         \* every wait lasts as long as the loop asked for
         IF \E t \in DOMAIN P.tm : P.tm[t].st = "live" THEN "C09.stalled" ELSE ""
    [] ln.k = "end" ->
         IF Known(P, ln.t) /\ P.tm[ln.t].per = 0 /\ P.tm[ln.t].nf > 0 /\ ln.a = 1
         THEN "C09.not_removed" ELSE ""
    [] OTHER -> ""

Apply(P, ln) ==
  CASE ln.k = "cfg" -> [P EXCEPT !.sec = ln.a]
    [] ln.k = "create" -> SetTm(P, ln.t, NewTimer(ln.b, ln.a, ln.a, ln.now))
    [] ln.k = "createat" ->
         SetTm(P, ln.t, NewTimer(ln.b, FloorS(ln.a, P.sec) - ln.now, FloorS(ln.a, P.sec) - ln.now, ln.now))
    [] ln.k = "reset" /\ Known(P, ln.t) ->
         LET r  == P.tm[ln.t]
             il == IF ln.a >= 0 THEN ln.a ELSE r.ivlo
             ih == IF ln.a >= 0 THEN ln.a ELSE r.ivhi
         IN SetTm(P, ln.t, [r EXCEPT !.ivlo = il, !.ivhi = ih, !.lo = ln.now + il,
                                      !.hi = ln.now + ih, !.src = 2])
    [] ln.k = "unreg" /\ Known(P, ln.t) ->
         SetTm(P, ln.t, [P.tm[ln.t] EXCEPT !.st = IF @ = "live" THEN "leaving" ELSE @])
    [] ln.k = "gone" /\ Known(P, ln.t) ->
         SetTm(P, ln.t, [P.tm[ln.t] EXCEPT !.st = "gone"])
    [] ln.k = "fire" /\ Known(P, ln.t) ->
         LET r == P.tm[ln.t] IN
         SetTm(P, ln.t,
           IF r.per = 1
           THEN [r EXCEPT !.nf = IF @ < 2 THEN @ + 1 ELSE @, !.pend = @ + 1, !.fired = TRUE,
                          !.lo = ln.now + r.ivlo, !.hi = ln.now + r.ivhi, !.src = 1]
           ELSE [r EXCEPT !.nf = IF @ < 2 THEN @ + 1 ELSE @, !.pend = @ + 1, !.fired = TRUE,
                          !.st = IF @ = "live" THEN "leaving" ELSE @])
    [] ln.k = "disp" /\ Known(P, ln.t) ->
         SetTm(P, ln.t, [P.tm[ln.t] EXCEPT !.pend = IF @ > 0 THEN @ - 1 ELSE 0])
    [] ln.k \in {"gend", "gcut"} ->
         [P EXCEPT !.tm = [x \in DOMAIN P.tm |-> [P.tm[x] EXCEPT !.fired = FALSE]]]
    [] OTHER -> P

(* Fold a sequence of lines through the monitor: <<P', firstBad>> *)
RECURSIVE Run(_, _, _)
Run(P, lines, badSoFar) ==
  IF lines = <<>> THEN <<P, badSoFar>>
  ELSE LET ln == Head(lines)
           f  == IF badSoFar = "" THEN Fail(P, ln) ELSE badSoFar
       IN Run(Apply(P, ln), Tail(lines), f)
=============================================================================
