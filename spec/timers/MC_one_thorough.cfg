SPECIFICATION Spec
CONSTANTS
  N = 1
  Intervals = {0, 1, 2, 3}
  DlOffsets = {0, 3, 5, 8}
  Pers = {0, 1}
  Grants = {1, 2}
  Advs = {1, 2}
  OpTimes = {0, 1}
  TaskTimes = {0, 1}
  MaxOps = 4
  MaxTicks = 6
  Variant = "code"
INVARIANT TypeOK
INVARIANT Conforms
INVARIANT PassOK
INVARIANT OneShotOnce
INVARIANT Spacing
INVARIANT DeadAfterUnregister
VIEW View
CHECK_DEADLOCK FALSE
