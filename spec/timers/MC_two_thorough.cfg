SPECIFICATION Spec
CONSTANTS
  N = 2
  Intervals = {0, 1, 2}
  DlOffsets = {3, 6}
  Pers = {0, 1}
  Grants = {1}
  Advs = {1}
  OpTimes = {1}
  TaskTimes = {1}
  MaxOps = 4
  MaxTicks = 5
  Variant = "code"
INVARIANT TypeOK
INVARIANT Conforms
INVARIANT PassOK
INVARIANT OneShotOnce
INVARIANT Spacing
INVARIANT DeadAfterUnregister
VIEW View
CHECK_DEADLOCK FALSE
