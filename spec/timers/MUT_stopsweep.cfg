SPECIFICATION Spec
CONSTANTS
  N = 2
  Intervals = {0, 1, 2}
  DlOffsets = {}
  Pers = {0, 1}
  Grants = {1}
  Advs = {1}
  OpTimes = {}
  TaskTimes = {}
  MaxOps = 3
  MaxTicks = 5
  Variant = "stopsweep"
INVARIANT TypeOK
INVARIANT Conforms
INVARIANT PassOK
INVARIANT OneShotOnce
INVARIANT Spacing
INVARIANT DeadAfterUnregister
VIEW View
CHECK_DEADLOCK FALSE
