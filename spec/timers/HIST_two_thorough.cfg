SPECIFICATION Spec
CONSTANTS
  N = 2
  Intervals = {0, 1}
  DlOffsets = {}
  Pers = {0, 1}
  Grants = {1}
  Advs = {1}
  OpTimes = {}
  TaskTimes = {}
  MaxOps = 3
  MaxTicks = 4
  Variant = "code"
INVARIANT Conforms
CHECK_DEADLOCK FALSE
