SPECIFICATION Spec
CONSTANTS
  N = 1
  Intervals = {0, 1, 2}
  DlOffsets = {3, 5, 8}
  Pers = {0, 1}
  Grants = {1}
  Advs = {1}
  OpTimes = {1}
  TaskTimes = {1}
  MaxOps = 3
  MaxTicks = 4
  Variant = "code"
INVARIANT TypeOK
INVARIANT Conforms
INVARIANT PassOK
INVARIANT OneShotOnce
INVARIANT Spacing
INVARIANT DeadAfterUnregister
VIEW View
CHECK_DEADLOCK FALSE
