SPECIFICATION Spec
CONSTANTS
  N = 2
  Intervals = {0, 1}
  DlOffsets = {}
  Pers = {0, 1}
  Grants = {}
  Advs = {}
  OpTimes = {}
  TaskTimes = {}
  MaxOps = 3
  MaxTicks = 3
  Variant = "code"
INVARIANT Conforms
CHECK_DEADLOCK FALSE
