------------------------------ MODULE Timers ------------------------------
(* C09 - generative model of circuits' timers under the manager's main loop
   (circuits.core.timers.Timer, Manager.tick/_dispatcher, generate_events.
   reduce_time_left, helpers.FallBackGenerator).

   Implementation-shaped: one Tick is one Manager.tick(): the task phase, the
   dispatch of the queued batch (ordinary events, timer events, the
   registered / prepare_unregister / prepare_unregister_complete /
   unregistered chain of the two-stage unregistration), then the
   generate_events pass in which every timer still in the tree either fires
   (and re-arms or leaves) or lowers the iteration's time budget, then the
   fallback generator's idle wait of at most that budget.  The environment
   chooses the timers, when they are created / reset / unregistered, how much
   virtual time handlers and tasks consume, how long an idle wait is allowed
   to last (never longer than requested) and whether another thread's event
   cuts it short.  Every step emits the trace lines the instrumented real
   loop emits; the C09 monitor of TimersOps judges them (Conforms).

   Budgets are kept in half units so that TIMEOUT (0.1 s, less than one
   0.25 s unit) is the value 1: it rounds up to one unit when requested and
   lets no whole unit pass.

   Variant = "code" is the pinned algorithm.  The other variants are the
   hand-made mutants of design.d/C09.md; TLC must find a violation for each
   (the model and the monitor have teeth).  They are generators, not oracles. *)
EXTENDS TimersOps, Naturals, FiniteSets, TLC

CONSTANTS N,           \* timer ids 1..N
          Intervals,   \* intervals (units) of Create
          DlOffsets,   \* deadline - now + 4 (units) of CreateAt (a cfg file cannot hold negative numbers)
          Pers,        \* subset of {0, 1}: one-shot / persistent
          Grants,      \* candidate lengths of an idle wait that is cut short
          Advs,        \* amounts of HandlerTime between ticks
          OpTimes,     \* handler times of ordinary events
          TaskTimes,   \* step times of a generator task ({}: no tasks)
          MaxOps,      \* environment operations other than Tick
          MaxTicks,    \* Ticks
          Variant      \* "code" | "gt" | "addinterval" | "nopending" | "flip" | "slack" | "stopsweep"

VARIABLES now,     \* virtual clock
          tms,     \* [1..N -> [st, iv, per, exp]]  st: "absent" | "live" | "leaving" | "gone"
          queue,   \* Seq(<<kind, a, b>>)  the manager's event queue
          task,    \* [n, d]: generator task with n steps left, each consuming d; n = -1: none
          budget,  \* half units requested by the last Tick's idle wait (0 none, -1 untimed)
          fires,   \* ghost: [1..N -> Seq(time)] the last two firings
          passok,  \* ghost: the last pass fired every due live timer, none early, and the wait was bounded
          nops, nticks,
          P, bad,  \* monitor state / first failed clause
          hist,    \* environment history (what a replay drives)
          out      \* lines emitted so far

vars == <<now, tms, queue, task, budget, fires, passok, nops, nticks, P, bad, hist, out>>

Ids == 1..N
TO == 1                      \* TIMEOUT in half units
Absent == [st |-> "absent", iv |-> 0, per |-> 0, exp |-> 0]
NoTask == [n |-> -1, d |-> 0]

(* \E over a singleton: TLC evaluates the fold once *)
Emit(lines) == \E r \in {Run(P, lines, bad)} : P' = r[1] /\ bad' = r[2] /\ out' = out \o lines

Init == /\ now = 8 /\ tms = [t \in Ids |-> Absent] /\ queue = <<>> /\ task = NoTask
        /\ budget = 0 /\ fires = [t \in Ids |-> <<>>] /\ passok = TRUE
        /\ nops = 0 /\ nticks = 0 /\ P = P0 /\ bad = "" /\ hist = <<>> /\ out = <<>>

CanOp == nops < MaxOps
Some == \E t \in Ids : tms[t].st # "absent"     \* nothing but the clock moves before the first timer exists
H(op, a, b, c) == hist' = Append(hist, <<op, a, b, c>>)
Quiet == UNCHANGED <<budget, fires, passok, nticks>>

-----------------------------------------------------------------------------
(* environment, between two ticks *)

Create(t, iv, per) ==
  /\ CanOp /\ tms[t].st = "absent" /\ \A u \in 1..(t - 1) : tms[u].st # "absent"
  /\ tms' = [tms EXCEPT ![t] = [st |-> "live", iv |-> iv, per |-> per, exp |-> now + iv]]
  /\ queue' = Append(queue, <<"reg", t, 0>>)
  /\ Emit(<<Line("create", t, iv, per, now)>>)
  /\ H("create", t, iv, per) /\ nops' = nops + 1
  /\ UNCHANGED <<now, task>> /\ Quiet

(* datetime deadline: mktime(timetuple()) drops the fraction of a second *)
CreateAt(t, off, per) ==
  /\ CanOp /\ tms[t].st = "absent" /\ (\A u \in 1..(t - 1) : tms[u].st # "absent") /\ now + off >= 0
  /\ LET e == Floor4(now + off) IN
     tms' = [tms EXCEPT ![t] = [st |-> "live", iv |-> e - now, per |-> per, exp |-> e]]
  /\ queue' = Append(queue, <<"reg", t, 0>>)
  /\ Emit(<<Line("createat", t, now + off, per, now)>>)
  /\ H("createat", t, now + off, per) /\ nops' = nops + 1
  /\ UNCHANGED <<now, task>> /\ Quiet

Reset(t) ==
  /\ CanOp /\ tms[t].st \in {"live", "leaving"}
  /\ tms' = [tms EXCEPT ![t].exp = now + tms[t].iv]
  /\ Emit(<<Line("reset", t, -1, 0, now)>>)
  /\ H("reset", t, -1, 0) /\ nops' = nops + 1
  /\ UNCHANGED <<now, queue, task>> /\ Quiet

Unregister(t) ==
  /\ CanOp /\ tms[t].st = "live"
  /\ tms' = [tms EXCEPT ![t].st = "leaving"]
  /\ queue' = Append(queue, <<"prep", t, 0>>)
  /\ Emit(<<Line("unreg", t, 0, 0, now)>>)
  /\ H("unreg", t, 0, 0) /\ nops' = nops + 1
  /\ UNCHANGED <<now, task>> /\ Quiet

(* virtual time consumed by the application's own loop code *)
HandlerTime(d) ==
  /\ CanOp /\ d > 0
  /\ now' = now + d
  /\ Emit(<<>>)
  /\ H("adv", d, 0, 0) /\ nops' = nops + 1
  /\ UNCHANGED <<tms, queue, task>> /\ Quiet

(* an ordinary event whose handler consumes d *)
FireOp(d) ==
  /\ CanOp /\ Some
  /\ queue' = Append(queue, <<"op", d, 0>>)
  /\ Emit(<<>>)
  /\ H("op", d, 0, 0) /\ nops' = nops + 1
  /\ UNCHANGED <<now, tms, task>> /\ Quiet

(* an event whose handler is a generator: n steps, each consuming d *)
StartTask(n, d) ==
  /\ CanOp /\ Some /\ task.n = -1 /\ \A i \in 1..Len(queue) : queue[i][1] # "gen"
  /\ queue' = Append(queue, <<"gen", n, d>>)
  /\ Emit(<<>>)
  /\ H("task", n, d, 0) /\ nops' = nops + 1
  /\ UNCHANGED <<now, tms, task>> /\ Quiet

-----------------------------------------------------------------------------
(* the system: one Manager.tick() *)

(* generate_events.reduce_time_left *)
Lower(bud, x) ==
  IF Variant = "flip"
  THEN (IF x >= 0 /\ (bud < 0 \/ bud < x) THEN x ELSE bud)
  ELSE (IF x >= 0 /\ (bud < 0 \/ bud > x) THEN x ELSE bud)

Due(n, e) == IF Variant = "gt" THEN n > e ELSE n >= e

(* M = [now, tms, q, task, lines, bud, fired, fires] *)
TaskPhase(M) ==
  IF M.task.n > 0 THEN [M EXCEPT !.now = @ + M.task.d, !.task.n = @ - 1]
  ELSE IF M.task.n = 0 THEN [M EXCEPT !.task = NoTask]
  ELSE M

RECURSIVE Disp(_, _)
Disp(M, batch) ==
  IF batch = <<>> THEN M
  ELSE LET e == Head(batch)
           k == e[1]
           M2 == CASE k = "op"     -> [M EXCEPT !.now = @ + e[2]]
                   [] k = "tev"    -> [M EXCEPT !.lines = Append(@, Line("disp", e[2], 0, 0, M.now))]
                   [] k = "prep"   -> [M EXCEPT !.q = Append(@, <<"prepc", e[2], 0>>)]
                   [] k = "prepc"  -> [M EXCEPT !.tms[e[2]].st = "gone",
                                                !.q = Append(@, <<"unregd", e[2], 0>>)]
                   [] k = "unregd" -> [M EXCEPT !.lines = Append(@, Line("gone", e[2], 0, 0, M.now))]
                   [] k = "gen"    -> [M EXCEPT !.task = [n |-> e[2], d |-> e[3]]]
                   [] OTHER        -> M       \* "reg": the registered event has no effect here
       IN Disp(M2, Tail(batch))

(* Timer._on_generate_events for every timer in the tree *)
RECURSIVE Pass(_, _)
Pass(M, i) ==
  IF i > N THEN M
  ELSE LET r == M.tms[i] IN
    IF r.st \notin {"live", "leaving"} THEN Pass(M, i + 1)
    ELSE IF Due(M.now, r.exp) THEN
      IF r.st = "leaving" /\ Variant # "nopending" THEN Pass(M, i + 1)
      ELSE LET tev == <<"tev", i, 0>>
               q2  == IF r.per = 0 /\ r.st = "live"
                      THEN M.q \o <<tev, <<"prep", i, 0>>>> ELSE Append(M.q, tev)
               r2  == IF r.per = 1
                      THEN [r EXCEPT !.exp = IF Variant = "addinterval" THEN r.exp + r.iv ELSE M.now + r.iv]
                      ELSE [r EXCEPT !.st = "leaving"]
               M2  == [M EXCEPT !.lines = Append(@, Line("fire", i, 0, 0, M.now)),
                                !.q = q2, !.tms[i] = r2, !.bud = Lower(@, 0),
                                !.fired = @ \cup {i},
                                !.fires[i] = IF Len(@) < 2 THEN Append(@, M.now) ELSE <<@[2], M.now>>,
                                !.early = @ \/ M.now < r.exp]
           IN \* "stopsweep": the timer calls event.stop() instead of reduce_time_left(0):
              \* no further generate_events handler (timer, observer, fallback) runs in this pass
              IF Variant = "stopsweep" THEN [M2 EXCEPT !.cut = TRUE, !.bud = 0]
              ELSE Pass(M2, i + 1)
    ELSE Pass([M EXCEPT !.bud = Lower(@, 2 * (r.exp - M.now) + (IF Variant = "slack" THEN 2 ELSE 0))], i + 1)

CeilU(b) == IF b < 0 THEN -1 ELSE (b + 1) \div 2
FloorU(b) == b \div 2

TickResult ==
  LET M0 == [now |-> now, tms |-> tms, q |-> <<>>, task |-> task,
             lines |-> <<Line("tick", 0, 0, 0, now)>>, bud |-> -1, fired |-> {},
             fires |-> fires, early |-> FALSE, cut |-> FALSE]
      M1 == Disp(TaskPhase(M0), queue)
      \* _dispatcher: events fired meanwhile, or registered tasks, bound the budget up front
      b0 == IF M1.q # <<>> THEN 0 ELSE IF M1.task.n >= 0 THEN TO ELSE -1
      M2 == Pass([M1 EXCEPT !.bud = b0,
                            !.lines = Append(@, Line("gbeg", 0, 0, 0, M1.now))], 1)
      M3 == [M2 EXCEPT !.lines = Append(@, IF M2.cut THEN Line("gcut", 0, 0, 0, M2.now)
                                              ELSE Line("gend", 0, CeilU(M2.bud), 0, M2.now))]
      \* direct statement of the property on the model's own state
      livedue == {t \in Ids : tms[t].st = "live" /\ M1.tms[t].st = "live" /\ M1.tms[t].exp <= M1.now}
      pending == {t \in Ids : M3.tms[t].st = "live"}
      ok == /\ ~M3.early
            /\ livedue \subseteq M3.fired
            /\ (M3.bud = 0 \/ \A t \in pending : M3.bud > 0 /\ 2 * M3.now + M3.bud <= 2 * M3.tms[t].exp)
  IN [M3 EXCEPT !.early = ok]       \* .early now carries the verdict of the direct check

(* how long the idle wait may last (sets built by filtering an interval, so
   that TLC enumerates every length once) *)
GrantMax == 8
ASSUME Grants \subseteq 1..GrantMax
WaitLengths(bud) ==
  IF bud = 0 THEN {0}
  ELSE IF bud < 0 THEN {x \in 0..GrantMax : x = 0 \/ x \in Grants}
  ELSE {x \in 0..FloorU(bud) : x = 0 \/ x = FloorU(bud) \/ x \in Grants}

Tick ==
  /\ nticks < MaxTicks /\ Some
  /\ \E M \in {TickResult} :
       \E d \in WaitLengths(M.bud), w \in {0, 1} :
        \* no wait / untimed wait ended by another thread's event / timed wait
        \* cut short by such an event (d < timeout) or running to its end
        /\ IF M.bud = 0 THEN w = 0
           ELSE IF M.bud < 0 THEN w = 1
           ELSE w = (IF d < FloorU(M.bud) THEN 1 ELSE 0)
        /\ now' = M.now + d
        /\ tms' = M.tms
        /\ queue' = IF w = 1 THEN Append(M.q, <<"op", 0, 0>>) ELSE M.q
        /\ task' = M.task
        /\ budget' = M.bud
        /\ fires' = M.fires
        /\ passok' = M.early
        /\ Emit(IF M.bud = 0 THEN M.lines
                ELSE Append(M.lines, Line("idle", 0, IF M.bud < 0 THEN Untimed ELSE CeilU(M.bud), d, M.now)))
        /\ H("tick", d, w, 0) /\ nticks' = nticks + 1 /\ UNCHANGED nops

Next == \/ \E t \in Ids, iv \in Intervals, per \in Pers : Create(t, iv, per)
        \/ \E t \in Ids, o \in DlOffsets : CreateAt(t, o - 4, 0)
        \/ \E t \in Ids : Reset(t) \/ Unregister(t)
        \/ \E d \in Advs : HandlerTime(d)
        \/ \E d \in OpTimes : FireOp(d)
        \/ \E d \in TaskTimes : StartTask(1, d)
        \/ Tick

Spec == Init /\ [][Next]_vars

-----------------------------------------------------------------------------
TypeOK == /\ now \in Nat /\ bad \in STRING /\ budget \in Int
          /\ \A t \in Ids : tms[t].st \in {"absent", "live", "leaving", "gone"}

(* C09 as the monitor's verdict on every behaviour of the model *)
Conforms == bad = ""

(* C09 stated directly on the model (independent of the monitor) *)
PassOK == passok
OneShotOnce == \A t \in Ids : tms[t].per = 0 /\ tms[t].st # "absent" => Len(fires[t]) <= 1
Spacing == \A t \in Ids : tms[t].per = 1 /\ Len(fires[t]) = 2 => fires[t][2] - fires[t][1] >= tms[t].iv
DeadAfterUnregister == \A t \in Ids : tms[t].st = "gone" /\ tms[t].per = 0 => Len(fires[t]) <= 1

View == <<now, tms, queue, task, budget, fires, passok, nops, nticks, P, bad>>
=============================================================================
