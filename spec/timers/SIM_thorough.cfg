SPECIFICATION Spec
CONSTANTS
  N = 3
  Intervals = {0, 1, 2, 3, 5}
  DlOffsets = {0, 3, 5, 8, 11}
  Pers = {0, 1}
  Grants = {1, 2, 3}
  Advs = {1, 2, 3}
  OpTimes = {0, 1, 2}
  TaskTimes = {0, 1}
  MaxOps = 14
  MaxTicks = 26
  Variant = "code"
INVARIANT Conforms
CHECK_DEADLOCK FALSE
