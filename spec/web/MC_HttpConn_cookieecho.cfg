SPECIFICATION Spec
CONSTANTS
  NConn = 2
  MaxIn = 4
  MaxSteps = 99
  Classes = {"GoodKA", "GoodClose", "GoodHead", "BadLine", "BadHeader", "BadCL", "BadChunk", "BadEscape", "Nul", "TlsHello", "TlsCut", "Truncate", "Rest"}
  Racing = TRUE
  Linger = TRUE
  DefectSets = {{"cookieecho"}}
INVARIANT TypeOK
INVARIANT Conforms
INVARIANT NoResidue
INVARIANT TablesOfLive
VIEW View
CHECK_DEADLOCK FALSE
