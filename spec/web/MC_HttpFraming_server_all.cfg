SPECIFICATION Spec
CONSTANTS
  Side = "server"
  Pool <- Two
  MaxMsgs = 2
  MaxCuts <- NoBound
  Mode = "all"
  Defects <- NoDefects
  KeepOut = FALSE
INVARIANT TypeOK
INVARIANT Conforms
INVARIANT EmitAtEnd
INVARIANT EmitOnce
INVARIANT NoSpuriousError
INVARIANT DeliveredIsEmitted
INVARIANT PrevIsCut
VIEW View
CHECK_DEADLOCK FALSE
