SPECIFICATION Spec
CONSTANTS
  NConn = 2
  MaxIn = 2
  MaxSteps = 6
  Classes = {"GoodKA", "BadCL", "Truncate", "Rest"}
  Racing = FALSE
  DefectSets = {{}, {"keepbuf", "echo505"}}
INVARIANT TypeOK
CHECK_DEADLOCK FALSE
