SPECIFICATION Spec
CONSTANTS
  NConn = 2
  MaxIn = 2
  MaxSteps = 6
  Classes = {"GoodKA", "BadCL", "Truncate", "Rest"}
  Racing = FALSE
  Linger = FALSE
  DefectSets = {{}, {"echo505", "cookieecho"}}
INVARIANT TypeOK
CHECK_DEADLOCK FALSE
