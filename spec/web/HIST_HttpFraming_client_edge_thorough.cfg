SPECIFICATION Spec
CONSTANTS
  Side = "client"
  Pool <- Few
  MaxMsgs = 1
  MaxCuts = 3
  Mode = "pm1"
  Defects <- AllDefects
  KeepOut = FALSE
INVARIANT TypeOK
CHECK_DEADLOCK FALSE
