SPECIFICATION Spec
CONSTANTS
  Sides = {"client"}
  Plans <- PlansPinned
  Defects <- AllDefects
INVARIANT TypeOK
INVARIANT Conforms
VIEW View
CHECK_DEADLOCK FALSE
