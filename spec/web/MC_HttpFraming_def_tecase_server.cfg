SPECIFICATION Spec
CONSTANTS
  Sides = {"server"}
  Plans <- PlansPinned
  Defects = {"tecase"}
INVARIANT TypeOK
INVARIANT Conforms
VIEW View
CHECK_DEADLOCK FALSE
