SPECIFICATION Spec
CONSTANTS
  Sides = {"client"}
  Plans <- PlansPinned
  Defects = {"nobody304"}
INVARIANT TypeOK
INVARIANT Conforms
VIEW View
CHECK_DEADLOCK FALSE
