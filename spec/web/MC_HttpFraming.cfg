SPECIFICATION Spec
CONSTANTS
  Sides = {"server", "client"}
  Plans <- PlansMC
  Defects <- NoDefects
INVARIANT TypeOK
INVARIANT Conforms
INVARIANT EmitAtEnd
INVARIANT EmitOnce
INVARIANT NoSpuriousError
INVARIANT DeliveredIsEmitted
INVARIANT PrevIsCut
VIEW View
CHECK_DEADLOCK FALSE
