SPECIFICATION Spec
CONSTANTS
  Side = "client"
  Pool <- Selected
  MaxMsgs = 1
  MaxCuts = 1
  Mode = "all"
  Defects <- AllDefects
  KeepOut = TRUE
INVARIANT TypeOK
CHECK_DEADLOCK FALSE
