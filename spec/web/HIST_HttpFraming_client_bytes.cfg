SPECIFICATION Spec
CONSTANTS
  Side = "client"
  Pool <- Selected
  MaxMsgs = 1
  MaxCuts <- NoBound
  Mode = "bytes"
  Defects <- AllDefects
  KeepOut = FALSE
INVARIANT TypeOK
CHECK_DEADLOCK FALSE
