SPECIFICATION Spec
CONSTANTS
  Side = "server"
  Pool <- Few
  MaxMsgs = 3
  MaxCuts <- NoBound
  Mode = "bnd"
  Defects <- NoDefects
  KeepOut = FALSE
INVARIANT TypeOK
INVARIANT Conforms
INVARIANT EmitAtEnd
INVARIANT EmitOnce
INVARIANT NoSpuriousError
INVARIANT DeliveredIsEmitted
INVARIANT PrevIsCut
VIEW View
CHECK_DEADLOCK FALSE
