SPECIFICATION Spec
CONSTANTS
  NConn = 1
  MaxIn = 2
  MaxSteps = 5
  Classes = {"GoodKA", "GoodClose", "BadLine", "BadHeader", "BadCL", "BadChunk", "BadEscape", "Nul", "TlsHello", "Truncate", "Rest"}
  Racing = TRUE
  DefectSets = {{}, {"keepbuf"}, {"echo505"}, {"keepbuf", "echo505"}}
INVARIANT TypeOK
CHECK_DEADLOCK FALSE
