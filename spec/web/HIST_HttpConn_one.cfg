SPECIFICATION Spec
CONSTANTS
  NConn = 1
  MaxIn = 2
  MaxSteps = 5
  Classes = {"GoodKA", "GoodClose", "GoodHead", "BadLine", "BadHeader", "BadCL", "BadChunk", "BadEscape", "Nul", "TlsHello", "TlsCut", "Truncate", "Rest"}
  Racing = TRUE
  Linger = TRUE
  DefectSets = {{}}
INVARIANT TypeOK
CHECK_DEADLOCK FALSE
