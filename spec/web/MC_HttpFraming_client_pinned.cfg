SPECIFICATION Spec
CONSTANTS
  Side = "client"
  Pool <- Selected
  MaxMsgs = 1
  MaxCuts <- NoBound
  Mode = "all"
  Defects <- AllDefects
  KeepOut = FALSE
INVARIANT TypeOK
INVARIANT Conforms
VIEW View
CHECK_DEADLOCK FALSE
