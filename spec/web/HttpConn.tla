----------------------------- MODULE HttpConn -----------------------------
(* C14 - generative model of circuits.web.http.HTTP as seen from its
   connections: the per-connection automaton

      none -> idle -> receiving(wait) -> {dispatched, rejected} -> responded
           -> {idle (keep-alive), closing} -> gone

   and the two per-connection tables of the component, `_buffers[sock]` (the
   parser of the message being received) and `_clients[sock]` (the request /
   response pair of the message being answered).

   The environment chooses, for each of the interleaved connections, when it
   connects, which *class* of input it sends next (the classes are realised by
   the mutation grammar of harness/drivers/c14_grammar.py) and when the peer
   hangs up - after any step, or right behind a read ("X": the disconnect is
   queued behind the read event without a tick in between).  A connection's
   transport either disconnects at once when the component fires close(sock)
   or *lingers* (mode "linger": circuits.net.sockets.Server defers the close
   while its write buffer drains): the connection is then "closing", reads
   are still delivered ("late" reads) until the environment lets the transport
   fire disconnect(sock) ("T").

   The component's reaction to one input is one atomic step (the harness lets
   the pipeline become quiescent after every read).  Which reaction a class
   draws depends on the concrete bytes, so it is a nondeterministic choice
   from Reactions(cls): the set of code paths of `_on_read` the class reaches
   (read off the code, confirmed by the replay: every real trace must equal
   one of the model's predictions for its history).  A reaction is shaped like
   the code path: which events it fires, and what it does to the two tables
   *before* it fires them.

   Defects (dv; each is a generator of counterexample histories, never an oracle):
     "keepbuf"  _on_disconnect releases _clients[sock] only (repaired in /repo)
     "echo505"  the 505 answer, and the 400 answer to a header error, repeat the
                client's version token in their status line (repaired in /repo):
                "HTTP/2.0 505" is unreadable for an HTTP/1.x client (r505g), so
                is "HTTP/1.380 400" (r400g: not a valid HTTP-version), and
                "HTTP/1.2 400" carries no Connection: close although the
                connection is closed (r400k)
     "stalebuf" the 505, 301 and exception exits of _on_read answer and close
                but leave the finished parser in _buffers[sock] until the
                disconnect: every late read finds it (headers complete, no
                _clients entry), rebuilds the request from the same headers and
                answers the message AGAIN
     "cookieecho" the request's cookies are sent back as Set-Cookie in every response: a
                cookie value with escaped CR LF (the parser decodes header lines with
                unicode_escape) puts a raw line break and a header of the client's
                choosing into the response head (accKg / accCg / r400i: not one valid
                response)
     "crsplit"  a request line whose CR LF is split over two reads is not recognised: the
                completed well-formed request is answered 400 (the parser of the first
                rounds; seeded again as C14-5)
     "stalepair" the early return of _on_response for body-less responses (HEAD,
                1xx, 204, 304) keeps _clients[sock]: on a kept-alive connection the
                next message that gets as far as its header block is judged on
                the OLD request (no version check, no Host check) and the old
                request is dispatched and answered again
   dv = {} is the intended discipline: a parser is dropped when its message is
   dispatched or answered, and everything keyed by the socket is released
   when disconnect(sock) is delivered.                                      *)
EXTENDS HttpConnOps, Naturals, FiniteSets, TLC

CONSTANTS NConn,      \* connections 1..NConn
          MaxIn,      \* inputs per connection
          MaxSteps,   \* length of the environment history
          Classes,    \* input classes the environment may use
          Racing,     \* BOOLEAN: include reads with the hang-up queued right behind
          Linger,     \* BOOLEAN: include connections whose transport lingers after close
          DefectSets  \* set of subsets of {"keepbuf", "echo505", "stalebuf", "stalepair", "crsplit"}: the variants to explore

VARIABLES dv,       \* the defect set of this behaviour (chosen initially, then constant)
          cs,       \* c -> [ph, buf, cli, nin, trunc, lg, stale]: trunc = the last input was a
                    \* Truncate; lg = lingering transport; stale = the answer-and-close reaction
                    \* whose finished parser is still in _buffers ("" if none); pair = the
                    \* (request, response) pair of an answered HEAD request is still in _clients
          P,        \* monitor state (HttpConnOps)
          bad,      \* first failed clause, "" if none
          hist,     \* environment history: what the replay drives
          out       \* every line emitted so far (compared with the real trace)

vars == <<dv, cs, P, bad, hist, out>>
Conns == 1..NConn

(* `out` keeps the emitted lines in a compact form (the dump is read by the driver) *)
Compact(ln) == <<ln.k, ln.c, ln.cls, ln.st, ln.pr, ln.sc, ln.a, ln.b>>
Emit(lines) == LET r == Run(P, lines, bad)
               IN /\ P' = r[1] /\ bad' = r[2]
                  /\ out' = out \o [i \in 1..Len(lines) |-> Compact(lines[i])]

K0 == [ph |-> "none", buf |-> FALSE, cli |-> FALSE, nin |-> 0, trunc |-> FALSE, lg |-> FALSE, stale |-> "", pair |-> FALSE]

Init == /\ dv \in DefectSets
        /\ cs = [c \in Conns |-> K0]
        /\ P = P0 /\ bad = "" /\ hist = <<>> /\ out = <<>>

L(k, c, st, pr, sc, a, b) == Line(k, c, "", "", st, pr, sc, a, b)
B2N(x) == IF x THEN 1 ELSE 0

WfOf(cls) == CASE cls \in {"GoodKA", "GoodClose", "GoodHead", "Rest"} -> "good"
               [] cls \in {"Truncate", "TlsCut"} -> "partial"
               [] OTHER -> "mal"

(* the request a message asks for, as far as the grammar vouches for it (the class stands for
   "METHOD target"); a Rest completes the Truncate before it *)
WantOf(cls) == IF cls \in {"GoodKA", "GoodClose", "GoodHead", "Truncate"} THEN cls
               ELSE IF cls = "Rest" THEN "Truncate" ELSE ""

(* the code paths of HTTP._on_read a class of input can reach *)
Reactions(cls) ==
  CASE cls = "GoodKA"    -> {"accK"}
    [] cls = "GoodClose" -> {"accC"}
    [] cls = "GoodHead"  -> {"accH"}
    [] cls = "BadLine"   -> {"r400", "accK", "accC", "r505", "r301", "x500", "wait"}
                              \cup (IF "echo505" \in dv THEN {"r505g", "r400g", "r400k"} ELSE {})
    [] cls = "BadHeader" -> {"r400", "accK", "accC", "r301", "x500"}
                              \cup (IF "cookieecho" \in dv THEN {"accKg", "accCg", "r400i"} ELSE {})
    [] cls = "BadCL"     -> {"x500", "accK", "accC", "waitB"}
    [] cls = "BadChunk"  -> {"waitB", "accK", "accC"}
    [] cls = "BadEscape" -> {"r400", "accK", "accC", "r301", "x500"}
    [] cls = "Nul"       -> {"r400", "accK", "accC", "wait"}
    [] cls = "TlsHello"  -> {"pclose", "wait", "r400", "x500"}
    [] cls = "Truncate"  -> {"wait", "waitB"}
    [] cls = "TlsCut"    -> {"wait", "pclose"}
    [] cls = "Rest"      -> {"accK", "accC"} \cup (IF "crsplit" \in dv THEN {"r400"} ELSE {})
    [] OTHER             -> {}

Closing == {"accC", "accCg", "r400i", "r400", "r400g", "r400k", "r505", "r505g", "r301", "x500", "pclose"}

(* the events of a reaction, up to and excluding the transport's reaction to close *)
Events(r, c, id) ==
  CASE r \in {"accK", "accH"} -> <<L("req", c, 0, id, FALSE, 0, 0), L("resp", c, 200, "ok", FALSE, 0, 0)>>
    [] r = "accKg" -> <<L("req", c, 0, id, FALSE, 0, 0), L("resp", c, 200, "garbage", FALSE, 0, 0)>>
    [] r = "accCg" -> <<L("req", c, 0, id, FALSE, 0, 0), L("resp", c, 200, "garbage", FALSE, 0, 0), L("close", c, 0, "", FALSE, 0, 0)>>
    [] r = "r400i" -> <<L("rej", c, 400, "", FALSE, 0, 0), L("resp", c, 400, "garbage", FALSE, 0, 0), L("close", c, 0, "", FALSE, 0, 0)>>
    [] r = "accOld" -> <<L("req", c, 0, "GoodHead", FALSE, 0, 0), L("resp", c, 200, "ok", FALSE, 0, 0)>>
    [] r = "accC"  -> <<L("req", c, 0, id, FALSE, 0, 0), L("resp", c, 200, "ok", TRUE, 0, 0), L("close", c, 0, "", FALSE, 0, 0)>>
    [] r = "r400"  -> <<L("rej", c, 400, "", FALSE, 0, 0), L("resp", c, 400, "ok", TRUE, 0, 0), L("close", c, 0, "", FALSE, 0, 0)>>
    [] r = "r505"  -> <<L("rej", c, 505, "", FALSE, 0, 0), L("resp", c, 505, "ok", TRUE, 0, 0), L("close", c, 0, "", FALSE, 0, 0)>>
    [] r = "r505g" -> <<L("rej", c, 505, "", FALSE, 0, 0), L("resp", c, 0, "garbage", FALSE, 0, 0), L("close", c, 0, "", FALSE, 0, 0)>>
    [] r = "r400g" -> <<L("rej", c, 400, "", FALSE, 0, 0), L("resp", c, 0, "garbage", FALSE, 0, 0), L("close", c, 0, "", FALSE, 0, 0)>>
    [] r = "r400k" -> <<L("rej", c, 400, "", FALSE, 0, 0), L("resp", c, 400, "ok", FALSE, 0, 0), L("close", c, 0, "", FALSE, 0, 0)>>
    [] r = "r301"  -> <<L("rej", c, 301, "", FALSE, 0, 0), L("resp", c, 301, "ok", TRUE, 0, 0), L("close", c, 0, "", FALSE, 0, 0)>>
    [] r = "x500"  -> <<L("exc", c, 0, "", FALSE, 0, 0), L("rej", c, 500, "", FALSE, 0, 0), L("resp", c, 500, "ok", TRUE, 0, 0),
                        L("close", c, 0, "", FALSE, 0, 0)>>
    [] r = "pclose" -> <<L("close", c, 0, "", FALSE, 0, 0)>>
    [] OTHER       -> <<>>

(* what the code path leaves in _buffers[sock] / _clients[sock] when its events
   have been handled (before any disconnect) *)
StaleExits == {"r505", "r505g", "r301", "x500"}
BufAfter(r) == r \in {"wait", "waitB"} \/ ("stalebuf" \in dv /\ r \in StaleExits)
CliAfter(r) == r = "waitB"

(* with a stale (request, response) pair in _clients every message whose header block
   is complete and parses is judged on the old request: it is dispatched again *)
Eff(c, r) == IF cs[c].pair /\ r \notin {"wait", "r400", "r400g", "r400k", "r400i", "pclose"} THEN "accOld" ELSE r
PairAfter(c, r) == cs[c].pair \/ (r = "accH" /\ "stalepair" \in dv)

(* disconnect(sock) delivered: HTTP._on_disconnect *)
Released(k) == [k EXCEPT !.ph = "gone", !.cli = FALSE, !.stale = "", !.pair = FALSE,
                         !.buf = IF "keepbuf" \in dv THEN @ ELSE FALSE]

Tabs(ncs) ==
  LET ids == SelectSeq([i \in 1..NConn |-> i], LAMBDA i : ncs[i].ph # "none")
  IN [j \in 1..Len(ids) |-> L("tab", ids[j], 0, "", FALSE, B2N(ncs[ids[j]].buf), B2N(ncs[ids[j]].cli))]

StepEnd(c, ncs) == <<L("alive", c, 0, "", FALSE, 1, 0)>> \o Tabs(ncs)

CanStep == Len(hist) < MaxSteps

Connect(c, lg) ==
  /\ CanStep /\ cs[c].ph = "none" /\ (lg => Linger)
  /\ \A d \in Conns : d < c => cs[d].ph # "none"          \* symmetry: connections are used in order
  /\ LET ncs == [cs EXCEPT ![c].ph = "idle", ![c].lg = lg] IN
     /\ cs' = ncs
     /\ Emit(<<L("conn", c, 0, "", FALSE, B2N(lg), 0)>> \o StepEnd(c, ncs))
  /\ hist' = Append(hist, <<"C", c, IF lg THEN "linger" ELSE "">>) /\ UNCHANGED dv

Enabled(c, cls) ==
  /\ cs[c].nin < MaxIn
  /\ IF cls = "Rest" THEN cs[c].trunc /\ cs[c].ph \in {"idle", "wait"}
     ELSE cs[c].ph = "idle"

(* one read event carrying a message of class cls; the component runs to quiescence *)
In(c, cls, r) ==
  /\ CanStep /\ Enabled(c, cls) /\ r \in Reactions(cls)
  /\ LET e   == Eff(c, r)
         cl  == e \in Closing
         k1  == [cs[c] EXCEPT !.nin = @ + 1, !.trunc = (cls = "Truncate"), !.buf = BufAfter(e),
                              !.cli = CliAfter(e) \/ PairAfter(c, e), !.pair = PairAfter(c, e),
                              !.stale = IF BufAfter(e) /\ e \in StaleExits THEN e ELSE "",
                              !.ph = IF e \in {"wait", "waitB"} THEN "wait" ELSE IF cl THEN "closing" ELSE "idle"]
         k2  == IF cl /\ ~cs[c].lg THEN Released(k1) ELSE k1
         ncs == [cs EXCEPT ![c] = k2]
         tr  == IF cl /\ ~cs[c].lg THEN <<L("disc", c, 0, "", FALSE, 0, 0)>> ELSE <<>>
     IN /\ cs' = ncs
        /\ Emit(<<Line("in", c, cls, WfOf(cls), 0, WantOf(cls), FALSE, 0, 0)>> \o Events(e, c, WantOf(cls)) \o tr \o StepEnd(c, ncs))
  /\ hist' = Append(hist, <<"I", c, cls>>) /\ UNCHANGED dv

(* a late read: the component has fired close(sock), the lingering transport still
   delivers.  With a stale parser in _buffers the finished message is answered again
   whatever arrives; otherwise the bytes start a new message *)
Late(c, cls, r) ==
  /\ CanStep /\ cs[c].ph = "closing" /\ cs[c].nin < MaxIn /\ cls # "Rest"
  /\ IF cs[c].stale = "" THEN r \in Reactions(cls)
     ELSE IF cs[c].stale = "x500" THEN r \in {"x500", "wait", "r400"}   \* a parser that raised half-way may also just go on
     ELSE r = cs[c].stale
  /\ LET e   == IF cs[c].stale # "" THEN r ELSE Eff(c, r)
         k1  == IF cs[c].stale # "" THEN [cs[c] EXCEPT !.nin = @ + 1]
                ELSE [cs[c] EXCEPT !.nin = @ + 1, !.buf = BufAfter(e), !.cli = CliAfter(e) \/ PairAfter(c, e),
                                   !.pair = PairAfter(c, e),
                                   !.stale = IF BufAfter(e) /\ e \in StaleExits THEN e ELSE ""]
         ncs == [cs EXCEPT ![c] = k1]
     IN /\ cs' = ncs
        /\ Emit(<<Line("in", c, cls, WfOf(cls), 0, WantOf(cls), FALSE, 0, 0)>> \o Events(e, c, WantOf(cls)) \o StepEnd(c, ncs))
  /\ hist' = Append(hist, <<"I", c, cls>>) /\ UNCHANGED dv

(* the same as In with the peer's hang-up queued right behind the read: the
   disconnect is handled before the events the read handler fired *)
InX(c, cls, r) ==
  /\ Racing /\ CanStep /\ Enabled(c, cls) /\ ~cs[c].lg /\ r \in Reactions(cls)
  /\ LET e   == Eff(c, r)
         k1  == [cs[c] EXCEPT !.nin = @ + 1, !.trunc = (cls = "Truncate"), !.buf = BufAfter(e), !.cli = CliAfter(e)]
         ncs == [cs EXCEPT ![c] = Released(k1)]
         tr  == IF e \in Closing THEN <<L("disc", c, 0, "", FALSE, 1, 0)>> ELSE <<>>
     IN /\ cs' = ncs
        /\ Emit(<<Line("in", c, cls, WfOf(cls), 0, WantOf(cls), FALSE, 0, 0), L("disc", c, 0, "", FALSE, 1, 0)>>
                \o Events(e, c, WantOf(cls)) \o tr \o StepEnd(c, ncs))
  /\ hist' = Append(hist, <<"X", c, cls>>) /\ UNCHANGED dv

(* the peer hangs up: the transport fires disconnect(sock) *)
Disc(c) ==
  /\ CanStep /\ cs[c].ph \in {"idle", "wait"}
  /\ LET ncs == [cs EXCEPT ![c] = Released(cs[c])] IN
     /\ cs' = ncs
     /\ Emit(<<L("disc", c, 0, "", FALSE, 1, 0)>> \o StepEnd(c, ncs))
  /\ hist' = Append(hist, <<"D", c, "">>) /\ UNCHANGED dv

(* the lingering transport has drained its buffer: disconnect(sock) after the close *)
TDisc(c) ==
  /\ CanStep /\ cs[c].ph = "closing"
  /\ LET ncs == [cs EXCEPT ![c] = Released(cs[c])] IN
     /\ cs' = ncs
     /\ Emit(<<L("disc", c, 0, "", FALSE, 0, 0)>> \o StepEnd(c, ncs))
  /\ hist' = Append(hist, <<"T", c, "">>) /\ UNCHANGED dv

AllReactions == {"accK", "accC", "accH", "accKg", "accCg", "r400i", "r400", "r400g", "r400k", "r505", "r505g", "r301", "x500", "wait", "waitB", "pclose"}

Next == \E c \in Conns :
          \/ \E lg \in BOOLEAN : Connect(c, lg)
          \/ Disc(c)
          \/ TDisc(c)
          \/ \E cls \in Classes : \E r \in AllReactions : In(c, cls, r) \/ InX(c, cls, r) \/ Late(c, cls, r)

Spec == Init /\ [][Next]_vars

-----------------------------------------------------------------------------
TypeOK == /\ bad \in STRING
          /\ \A c \in Conns : /\ cs[c].ph \in {"none", "idle", "wait", "closing", "gone"}
                              /\ cs[c].buf \in BOOLEAN /\ cs[c].cli \in BOOLEAN
                              /\ cs[c].nin \in 0..MaxIn

(* C14 as the monitor's verdict on every behaviour of the model *)
Conforms == bad = ""

(* C14's last sentence stated directly on the model's state *)
NoResidue == \A c \in Conns : cs[c].ph = "gone" => ~cs[c].buf /\ ~cs[c].cli

(* the tables only ever hold entries of live connections *)
TablesOfLive == \A c \in Conns : (cs[c].buf \/ cs[c].cli) => cs[c].ph # "none"

View == <<dv, cs, P, bad>>
=============================================================================
