SPECIFICATION Spec
CONSTANTS
  Side = "server"
  Pool <- Selected
  MaxMsgs = 1
  MaxCuts <- NoBound
  Mode = "all"
  Defects = {"lastchunk"}
  KeepOut = FALSE
INVARIANT TypeOK
INVARIANT Conforms
VIEW View
CHECK_DEADLOCK FALSE
