SPECIFICATION Spec
CONSTANTS
  Sides = {"client"}
  Plans <- PlansPinned
  Defects = {"untilclose"}
INVARIANT TypeOK
INVARIANT Conforms
VIEW View
CHECK_DEADLOCK FALSE
