SPECIFICATION Spec
CONSTANTS
  Sides = {"client"}
  Plans <- PlansPinned
  Defects = {"linecrlf"}
INVARIANT TypeOK
INVARIANT Conforms
VIEW View
CHECK_DEADLOCK FALSE
