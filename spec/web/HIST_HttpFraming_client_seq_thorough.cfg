SPECIFICATION Spec
CONSTANTS
  Side = "client"
  Pool <- Few
  MaxMsgs = 3
  MaxCuts = 2
  Mode = "bnd"
  Defects <- AllDefects
  KeepOut = FALSE
INVARIANT TypeOK
CHECK_DEADLOCK FALSE
