SPECIFICATION Spec
CONSTANTS
  NConn = 2
  MaxIn = 1
  MaxSteps = 5
  Classes = {"GoodKA", "BadLine", "BadCL", "TlsHello", "Truncate", "Rest"}
  Racing = FALSE
  Linger = FALSE
  DefectSets = {{}, {"echo505", "cookieecho"}}
INVARIANT TypeOK
CHECK_DEADLOCK FALSE
