--------------------------- MODULE HttpResponse ---------------------------
(* C15 - generative model: one HTTP connection served by circuits.web.

   The environment sends up to MaxReq requests, each with a configuration
   (protocol version, method, Connection header, and - through the handler -
   status, body kind and the response.stream flag); the next request is sent
   only while the previous response left the connection open.  The system
   answers with the framing algorithm of the code, written in the shape of the
   code: Prepare = Response.prepare() (wrappers.py), Respond = HTTP._on_response
   + HTTP._on_stream (http.py).  Each exchange emits the trace line the
   instrumented real pipeline emits (configuration + what an independent
   client decodes), the C15 monitor of HttpResponseOps judges it, and the
   invariant Conforms says the monitor never flags the model.

   The algorithm is parameterised by a set of defect names dv, chosen in Init
   from DefectChoices.  dv = {} is the intended algorithm.  Each defect name
   switches on one deviation of the pinned code; with any of them the monitor
   is violated (ASSUME Teeth; and the history dumps, which explore dv = {}
   and dv = all six = the pinned tree, record the monitor's verdict `bad` for
   every history) and the violating configurations are among those replayed on
   the real code.  The variants are generators of cases and of predictions to
   compare the real lines with, never oracles:
     "head_noclose"   _on_response returns after the headers of a HEAD
                      response: no close(sock) although announced, and the
                      (request, response) pair stays in HTTP._clients, so the
                      next request on the connection is served with the old pair;
                      pushed stream data is written for a HEAD response
     "bodiless_body"  204/304 responses carry the body the handler produced
                      (and a 204 its Content-Length)
     "push_cl"        a pushed stream (response.stream = True, body empty, data
                      arrives in stream events) is announced with Content-Length: 0
     "empty_chunk"    the first chunk of a streamed generator is written even
                      when empty: under chunked coding that is the terminator
     "chunk_noterm"   a generator body that is not streamed and yields nothing
                      but empty strings is announced as chunked and never
                      terminated
     "listwish"       should_keep_alive compares the whole Connection header value
                      with 'close' / 'keep-alive': an option inside a list
                      (`Connection: close, foo`) is not recognised
     "casewish"       the options are compared case-sensitively (`Close`, `KEEP-ALIVE`
                      are not recognised)                          [seeded C15-6]
     "tailappend"     Server._write re-queues the unsent rest of a partially
                      accepted chunk at the tail of the connection's queue [C15-5]
     "shortread"      file_generator takes a short read for end-of-file    [C15-4]
     "unsized205"     prepare() gives a 205 without Content-Length neither chunked
                      coding nor close (as for 204/304), but its body is written
     "bodiless205"    ... and a sized 205 (and 304) gets no Content-Length either  [C15-9]
     "lenclose"       the end of a stream that is not chunked always closes the
                      connection, also when the application set a Content-Length  [C15-8]
     "stream_sized"   response.stream = True with a non-empty str/bytes/list body
                      raises in _on_response and the error handling never ends
                      (intended: the body is the first data of a stream the
                      application completes with stream events) *)
EXTENDS HttpResponseOps, Naturals, FiniteSets, TLC

CONSTANTS Protos, Methods, Conns, Statuses, Bodies, Flags,   \* the product of configurations
          Spells,          \* spelling of the Connection wish: "canon" (close / keep-alive), "title" (Close /
                           \* Keep-Alive), "upper", "list" (close, foo / keep-alive, foo); the wish itself (conn)
                           \* is what the header means: options are case-insensitive, the header is a list
          Wins,            \* what the transport accepts per send() while this response is written: 0 = all,
                           \* 4000 = at most 4000 bytes, 1 = tiny accepts (1, 700, 65536, 3, ...)
          SeqSpells,
          MaxReq,          \* requests per connection
          DefectChoices,   \* set of defect sets to explore
          SeqConns, SeqStatuses, SeqBodies   \* requests after the first (and their predecessors) are taken
                                             \* from this sub-product (= the full sets: no restriction)

VARIABLES dv,      \* defect set of this behaviour
          open,    \* BOOLEAN   the server has not closed the connection
          stale,   \* BOOLEAN   HTTP._clients[sock] still holds an answered HEAD request
          k,       \* requests sent so far
          P, bad,  \* monitor state, first failed clause
          hist,    \* environment history: the configurations sent (what a replay drives)
          out      \* every line emitted so far (compared with the real trace)

vars == <<dv, open, stale, k, P, bad, hist, out>>

AllDefects == {"head_noclose", "bodiless_body", "push_cl", "empty_chunk", "chunk_noterm", "stream_sized",
               "listwish", "casewish", "tailappend", "shortread", "unsized205", "lenclose", "bodiless205"}

IterBodies == {"gen", "genWithEmpty", "genEmptyMid", "genAllEmpty", "genBig", "file", "fileCL", "trickle"}    \* response.body is an iterator

RareStatuses == {203, 205, 206, 300}     \* unusual 2xx/3xx: on the bodies below only
RareBodies   == {"empty", "str", "bytes", "list", "gen", "fileCL"}
SpellBodies == {"str", "gen"}          \* non-canonical spellings and partial accepts are combined with a
WinBodies   == {"str", "big", "gen", "genWithEmpty", "genBig", "file", "trickle", "stream", "yield"}   \* sub-product

(* the product: every (proto, method, conn, status, body, stream) with the canonical
   spelling and a transport that accepts everything; the other spellings and the
   partial accepts on the sub-products above *)
Cfgs ==
  LET core  == {c \in [proto: Protos, method: Methods, conn: Conns, status: Statuses, body: Bodies, stream: Flags,
                       spell: {"canon"} \cap Spells, win: {0} \cap Wins] :
                  /\ c.body = "stream" => c.stream                   \* a pushed stream is response.stream = True by definition
                  /\ c.body = "error" => c.status \notin {200, 201, 203, 205, 206, 300}  \* httperror() is for error statuses
                  /\ c.status \in RareStatuses => c.body \in RareBodies /\ ~c.stream}
      spelt == [proto: Protos, method: Methods, conn: Conns \ {"none"}, status: {200} \cap Statuses,
                body: SpellBodies \cap Bodies, stream: {FALSE} \cap Flags, spell: Spells \ {"canon"}, win: {0} \cap Wins]
      windw == {c \in [proto: Protos, method: Methods, conn: Conns, status: {200} \cap Statuses,
                       body: WinBodies \cap Bodies, stream: Flags, spell: {"canon"} \cap Spells, win: Wins \ {0}] :
                  c.body = "stream" => c.stream}
  IN core \cup spelt \cup windw

NoBodyStatus(s) == s < 200 \/ s \in {204, 304}

(* body bytes the application produces (harness/drivers/c15.py EXPECTED; the
   error page's length depends on the status text: 500 stands for it) *)
ExpLen(c) ==
  CASE c.body \in {"none", "empty", "genAllEmpty"} -> 0
    [] c.body = "str" -> 17
    [] c.body = "bytes" -> 14
    [] c.body = "list" -> 7
    [] c.body = "big" -> 160000
    [] c.body = "gen" -> 30
    [] c.body \in {"genWithEmpty", "genEmptyMid"} -> 3
    [] c.body \in {"file", "fileCL", "trickle"} -> 10240
    [] c.body = "genBig" -> 210000
    [] c.body = "stream" -> 37
    [] c.body = "yield" -> 13
    [] c.body = "error" -> IF NoBodyStatus(c.status) THEN 0 ELSE 500

(* HttpParser.should_keep_alive: the wish as the server understands it *)
EffWish(c, Defects) ==
  IF \/ (c.spell \in {"title", "upper"} /\ "casewish" \in Defects)
     \/ (c.spell = "list" /\ "listwish" \in Defects)
  THEN "none" ELSE c.conn
WantsKeepAlive(c, Defects) == LET w == EffWish(c, Defects) IN w = "keepalive" \/ (w = "none" /\ c.proto = 11)
IsStream(c)  == c.stream \/ c.body \in {"file", "fileCL", "trickle"}    \* Body.__set__ turns stream on for objects with read()
IsIter(c)    == c.body \in IterBodies
ListLen(c)   == IF c.body = "stream" THEN 0 ELSE ExpLen(c)     \* bytes in response.body when it is a list
Pushed(c)    == IsStream(c) /\ ~IsIter(c) /\ ListLen(c) = 0    \* completed by stream(res, ..), stream(res, None)

(* the non-empty pieces a streamed body is written in (harness/drivers/c15.py) *)
Pieces(c) ==
  CASE c.body = "gen" -> <<6, 6, 18>>
    [] c.body \in {"genWithEmpty", "genEmptyMid"} -> <<1, 2>>
    [] c.body = "genBig" -> <<70000, 70000, 70000>>
    [] c.body \in {"file", "fileCL"} -> <<4096, 4096, 2048>>
    [] c.body = "trickle" -> <<1000, 1, 4096, 1, 37, 4096, 1009>>     \* read(4096) returns these: short reads
    [] c.body = "stream" -> <<8, 9, 20>>
    [] OTHER -> IF ExpLen(c) > 0 THEN <<ExpLen(c)>> ELSE <<>>

(* Response.prepare(): [hascl, cl, chunked, close] *)
Prepare(c, em, Defects) ==
  LET appcl   == c.body = "fileCL"          \* the handler set Content-Length itself (as tools.serve_file does)
      sized   == ~IsIter(c) /\ ("push_cl" \in Defects \/ ~IsStream(c))
      nocl    == \/ (c.status = 204 /\ "bodiless_body" \notin Defects)
                 \/ (c.status \in {205, 304} /\ "bodiless205" \in Defects)
      hascl   == appcl \/ (sized /\ ~nocl)
      noframe == \/ NoBodyStatus(c.status)      \* "needs neither chunked nor close"
                 \/ (c.status = 205 /\ ("unsized205" \in Defects \/ "bodiless205" \in Defects))
      close0  == ~WantsKeepAlive(c, Defects) \/ c.body = "error"
      chunked == ~hascl /\ ~noframe /\ c.proto = 11 /\ em # "HEAD"
      close   == close0 \/ (~hascl /\ ~noframe /\ ~chunked)
  IN [hascl |-> hascl, cl |-> IF appcl THEN ExpLen(c) ELSE IF hascl THEN ListLen(c) ELSE -1,
      chunked |-> chunked, close |-> close]

Outcome(c, p, parse, bodylen, extra, closed, bodyeq) ==
  [parse |-> parse, ostatus |-> IF parse = "ok" THEN c.status ELSE 0, over |-> IF parse = "ok" THEN c.proto ELSE 0,
   hascl |-> parse = "ok" /\ p.hascl, cl |-> IF parse = "ok" THEN p.cl ELSE -1,
   chunked |-> parse = "ok" /\ p.chunked, bodylen |-> bodylen, extra |-> extra,
   cclose |-> parse = "ok" /\ c.proto = 11 /\ p.close, cka |-> parse = "ok" /\ c.proto = 10 /\ ~p.close,
   closed |-> closed, bodyeq |-> bodyeq]

(* HTTP._on_response / _on_stream for configuration c, served as method em:
   [o: outcome, stale: the pair stays in _clients] *)
Respond(c, em, Defects) ==
  LET p    == Prepare(c, em, Defects)
      n    == ExpLen(c)
      dead == /\ "stream_sized" \in Defects /\ c.stream /\ ~IsIter(c) /\ ListLen(c) > 0 /\ em # "HEAD"
              /\ ("bodiless_body" \in Defects \/ ~NoBodyStatus(c.status))
  IN
  IF dead THEN [o |-> Outcome(c, p, "livelock", 0, 0, TRUE, FALSE), stale |-> FALSE]
  ELSE IF em = "HEAD" THEN
    IF "head_noclose" \in Defects
    THEN IF Pushed(c)      \* the stream events are handled as for GET: raw data, then close
         THEN [o |-> Outcome(c, p, "ok", 0, n, p.close, n = 0), stale |-> FALSE]
         ELSE [o |-> Outcome(c, p, "ok", 0, 0, FALSE, n = 0), stale |-> TRUE]
    ELSE [o |-> Outcome(c, p, "ok", 0, 0, p.close, n = 0), stale |-> FALSE]
  ELSE IF NoBodyStatus(c.status) THEN
    IF "bodiless_body" \in Defects
    THEN [o |-> Outcome(c, p, "ok", 0, n, p.close, n = 0), stale |-> FALSE]
    ELSE [o |-> Outcome(c, p, "ok", 0, 0, p.close, n = 0), stale |-> FALSE]
  ELSE IF Pushed(c) /\ p.hascl THEN                 \* Content-Length: 0, then the pushed data
    [o |-> Outcome(c, p, "ok", 0, n, p.close, n = 0), stale |-> FALSE]
  ELSE IF /\ "empty_chunk" \in Defects /\ p.chunked /\ IsStream(c) /\ c.body \in {"genWithEmpty", "genAllEmpty"} THEN
    [o |-> Outcome(c, p, "ok", 0, 1, p.close, n = 0), stale |-> FALSE]
  ELSE IF /\ "chunk_noterm" \in Defects /\ p.chunked /\ IsIter(c) /\ ~IsStream(c) /\ n = 0 THEN
    [o |-> Outcome(c, p, "incomplete", 0, 0, p.close, FALSE), stale |-> FALSE]
  ELSE IF "shortread" \in Defects /\ c.body = "trickle" THEN     \* stops after the first short read
    [o |-> Outcome(c, p, "ok", Pieces(c)[1], 0, p.close, FALSE), stale |-> FALSE]
  ELSE IF "lenclose" \in Defects /\ IsStream(c) /\ ~p.chunked THEN   \* _on_stream(None): not chunked => close
    [o |-> Outcome(c, p, "ok", n, 0, TRUE, TRUE), stale |-> FALSE]
  ELSE [o |-> Outcome(c, p, "ok", n, 0, p.close, TRUE), stale |-> FALSE]

(* --- the write path (circuits.net.sockets.Server.write / _on_write / _write) ---
   The response is a sequence of write events (headers, body pieces with their
   chunk framing, chunk terminator) queued in the connection's deque; each
   write-readiness hands the head to send(), which accepts at most Window
   bytes; the rest goes back to the FRONT of the deque.  Delivered order =
   written order whatever the window.  With "tailappend" the rest goes to the
   TAIL: as soon as a write that is not the last one is accepted partially,
   later writes overtake it.                                                 *)
HdrLen == 150
Window(w) == IF w = 0 THEN 1000000000 ELSE w        \* 1: the first send() accepts one byte
WithFraming(s, chunked) == [i \in 1..Len(s) |-> IF chunked THEN s[i] + 8 ELSE s[i]]
Writes(c, p, em) ==
  LET n == ExpLen(c)
      body == IF em = "HEAD" \/ NoBodyStatus(c.status) THEN <<>>
              ELSE IF IsStream(c) THEN WithFraming(Pieces(c), p.chunked) \o (IF p.chunked THEN <<5>> ELSE <<>>)
              ELSE (IF n > 0 THEN WithFraming(<<n>>, p.chunked) ELSE <<>>) \o (IF p.chunked THEN <<5>> ELSE <<>>)
  IN <<HdrLen>> \o body
Overtaken(c, p, em) == LET w == Writes(c, p, em) IN \E i \in 1..(Len(w) - 1) : w[i] > Window(c.win)

(* what the peer receives: Respond, seen through the write path *)
Deliver(c, em, Defects) ==
  LET r == Respond(c, em, Defects)
      p == Prepare(c, em, Defects)
  IN IF "tailappend" \in Defects /\ r.o.parse = "ok" /\ Overtaken(c, p, em)
     THEN IF HdrLen > Window(c.win)
          THEN [o |-> Outcome(c, p, "nostatus", 0, 0, r.o.closed, FALSE), stale |-> r.stale]
          ELSE [o |-> [r.o EXCEPT !.bodyeq = FALSE], stale |-> r.stale]
     ELSE r

InSeq(c) == c.conn \in SeqConns /\ c.status \in SeqStatuses /\ c.body \in SeqBodies /\ c.spell \in SeqSpells /\ c.win = 0
CfgOf(h) == [proto |-> h[1], method |-> h[2], conn |-> h[3], status |-> h[4], body |-> h[5], stream |-> h[6],
             spell |-> h[7], win |-> h[8]]
Canon(c) == [c EXCEPT !.spell = "canon"]

XLine(i, c, o, refclosed) ==
  [k |-> "x", i |-> i, proto |-> c.proto, method |-> c.method, conn |-> c.conn, status |-> c.status,
   body |-> c.body, stream |-> c.stream, spell |-> c.spell, win |-> c.win, refclosed |-> refclosed,
   explen |-> ExpLen(c), nresp |-> 0,
   parse |-> o.parse, ostatus |-> o.ostatus, over |-> o.over, hascl |-> o.hascl, cl |-> o.cl,
   chunked |-> o.chunked, bodylen |-> o.bodylen, extra |-> o.extra, cclose |-> o.cclose, cka |-> o.cka,
   closed |-> o.closed, bodyeq |-> o.bodyeq]

Emit(lines) == LET r == Run(P, lines, bad) IN P' = r[1] /\ bad' = r[2] /\ out' = out \o lines

Init == /\ dv \in DefectChoices
        /\ open = TRUE /\ stale = FALSE /\ k = 0 /\ P = P0 /\ bad = "" /\ hist = <<>> /\ out = <<>>

(* one request and its response; a stale pair makes the server treat the
   request as the HEAD it still remembers *)
Exchange(c) ==
  /\ open /\ k < MaxReq
  /\ IF k = 0 THEN TRUE ELSE InSeq(c) /\ InSeq(CfgOf(hist[1]))
  /\ LET em == IF stale THEN "HEAD" ELSE c.method
         r  == Deliver(c, em, dv)
         rc == IF c.spell = "canon" THEN r.o.closed
               ELSE Deliver(Canon(c), em, dv).o.closed   \* same request, wish spelled canonically
     IN /\ Emit(<<XLine(k + 1, c, r.o, rc)>>)
        /\ open' = ~r.o.closed
        /\ stale' = r.stale
  /\ k' = k + 1
  /\ hist' = Append(hist, <<c.proto, c.method, c.conn, c.status, c.body, c.stream, c.spell, c.win>>)
  /\ UNCHANGED dv

Next == \E c \in Cfgs : Exchange(c)

Spec == Init /\ [][Next]_vars

-----------------------------------------------------------------------------
TypeOK == /\ dv \subseteq AllDefects /\ open \in BOOLEAN /\ stale \in BOOLEAN /\ k \in 0..MaxReq /\ bad \in STRING

(* C15 as the monitor's verdict on every behaviour of the model *)
Conforms == bad = ""

(* C15 stated directly on the model's lines (independent of the fold): every
   response is Framed, announces exactly what happens to the connection, and a
   request is only ever answered on a connection every earlier response kept
   open (KeepAliveUsable) *)
Framed == \A j \in 1..Len(out) :
            /\ out[j].parse = "ok" /\ Framing(out[j]) = ""
            /\ out[j].closed = AnnouncedClose(out[j])
            /\ out[j].closed = out[j].refclosed /\ (out[j].conn = "close" => out[j].closed)
            /\ (Bodiless(out[j]) \/ out[j].bodyeq)
KeepAliveUsable == \A j \in 1..Len(out) : \A h \in 1..(j - 1) : ~out[h].closed
NoStalePair == dv = {} => ~stale

(* the same, for configurations that explore several defect sets at once (the
   history dumps): only the intended algorithm is held to the property *)
IConforms == dv = {} => Conforms
IFramed   == dv = {} => Framed

(* the model has teeth: every single defect makes some configuration violate
   the monitor already as the first request of a connection *)
FirstLine(c, D) == LET o == Deliver(c, c.method, D).o
                   IN XLine(1, c, o, IF c.spell = "canon" THEN o.closed ELSE Deliver(Canon(c), c.method, D).o.closed)
TeethClauses(d) == {Allowed(FirstLine(c, {d})) : c \in Cfgs} \ {""}
Teeth == \A d \in AllDefects : LET tc == TeethClauses(d) IN PrintT(<<"TEETH", d, tc>>) /\ tc # {}
ASSUME Teeth
OpenIsNotClosed == out # <<>> => open = ~out[Len(out)].closed

(* Coarse view: hist and out are hidden.  Later steps depend only on open,
   stale, k and the monitor state, so every transition of every sequence is
   still generated and Conforms (bad is in the view) is decided for all of
   them; invariants that read `out` are only evaluated on one representative
   per class - use ViewLast for those. *)
View == <<dv, open, stale, k, P, bad>>

(* Fine view: the last line (and whether the
   one before it closed) stays, so that every configuration is a distinct state
   at every depth and the invariants above are evaluated on each of them *)
ViewLast == <<dv, open, stale, k, P, bad,
          IF out = <<>> THEN <<>> ELSE out[Len(out)],
          IF Len(out) < 2 THEN FALSE ELSE out[Len(out) - 1].closed>>
=============================================================================
