--------------------------- MODULE HttpResponse ---------------------------
(* C15 - generative model: one HTTP connection served by circuits.web.

   The environment sends up to MaxReq requests, each with a configuration
   (protocol version, method, Connection header, and - through the handler -
   status, body kind and the response.stream flag); the next request is sent
   only while the previous response left the connection open.  The system
   answers with the framing algorithm of the code, written in the shape of the
   code: Prepare = Response.prepare() (wrappers.py), Respond = HTTP._on_response
   + HTTP._on_stream (http.py).  Each exchange emits the trace line the
   instrumented real pipeline emits (configuration + what an independent
   client decodes), the C15 monitor of HttpResponseOps judges it, and the
   invariant Conforms says the monitor never flags the model.

   The algorithm is parameterised by a set of defect names dv, chosen in Init
   from DefectChoices.  dv = {} is the intended algorithm.  Each defect name
   switches on one deviation of the pinned code; with any of them the monitor
   is violated (ASSUME Teeth; and the history dumps, which explore dv = {}
   and dv = all six = the pinned tree, record the monitor's verdict `bad` for
   every history) and the violating configurations are among those replayed on
   the real code.  The variants are generators of cases and of predictions to
   compare the real lines with, never oracles:
     "head_noclose"   _on_response returns after the headers of a HEAD
                      response: no close(sock) although announced, and the
                      (request, response) pair stays in HTTP._clients, so the
                      next request on the connection is served with the old pair;
                      pushed stream data is written for a HEAD response
     "bodiless_body"  204/304 responses carry the body the handler produced
                      (and a 204 its Content-Length)
     "push_cl"        a pushed stream (response.stream = True, body empty, data
                      arrives in stream events) is announced with Content-Length: 0
     "empty_chunk"    the first chunk of a streamed generator is written even
                      when empty: under chunked coding that is the terminator
     "chunk_noterm"   a generator body that is not streamed and yields nothing
                      but empty strings is announced as chunked and never
                      terminated
     "stream_sized"   response.stream = True with a non-empty str/bytes/list body
                      raises in _on_response and the error handling never ends
                      (intended: the body is the first data of a stream the
                      application completes with stream events) *)
EXTENDS HttpResponseOps, Naturals, FiniteSets, TLC

CONSTANTS Protos, Methods, Conns, Statuses, Bodies, Flags,   \* the product of configurations
          MaxReq,          \* requests per connection
          DefectChoices,   \* set of defect sets to explore
          SeqConns, SeqStatuses, SeqBodies   \* requests after the first (and their predecessors) are taken
                                             \* from this sub-product (= the full sets: no restriction)

VARIABLES dv,      \* defect set of this behaviour
          open,    \* BOOLEAN   the server has not closed the connection
          stale,   \* BOOLEAN   HTTP._clients[sock] still holds an answered HEAD request
          k,       \* requests sent so far
          P, bad,  \* monitor state, first failed clause
          hist,    \* environment history: the configurations sent (what a replay drives)
          out      \* every line emitted so far (compared with the real trace)

vars == <<dv, open, stale, k, P, bad, hist, out>>

AllDefects == {"head_noclose", "bodiless_body", "push_cl", "empty_chunk", "chunk_noterm", "stream_sized"}

IterBodies == {"gen", "genWithEmpty", "genEmptyMid", "genAllEmpty", "file"}    \* response.body is an iterator

Cfgs == {c \in [proto: Protos, method: Methods, conn: Conns, status: Statuses, body: Bodies, stream: Flags] :
           /\ c.body = "stream" => c.stream                   \* a pushed stream is response.stream = True by definition
           /\ c.body = "error" => c.status \notin {200, 201}} \* httperror() is for error statuses

NoBodyStatus(s) == s < 200 \/ s \in {204, 304}

(* body bytes the application produces (harness/drivers/c15.py EXPECTED; the
   error page's length depends on the status text: 500 stands for it) *)
ExpLen(c) ==
  CASE c.body \in {"none", "empty", "genAllEmpty"} -> 0
    [] c.body = "str" -> 17
    [] c.body = "bytes" -> 14
    [] c.body = "list" -> 7
    [] c.body = "big" -> 160000
    [] c.body = "gen" -> 30
    [] c.body \in {"genWithEmpty", "genEmptyMid"} -> 3
    [] c.body = "file" -> 10240
    [] c.body = "stream" -> 37
    [] c.body = "yield" -> 13
    [] c.body = "error" -> IF NoBodyStatus(c.status) THEN 0 ELSE 500

WantsKeepAlive(c) == c.conn = "keepalive" \/ (c.conn = "none" /\ c.proto = 11)   \* HttpParser.should_keep_alive
IsStream(c)  == c.stream \/ c.body = "file"           \* Body.__set__ turns stream on for file objects
IsIter(c)    == c.body \in IterBodies
ListLen(c)   == IF c.body = "stream" THEN 0 ELSE ExpLen(c)     \* bytes in response.body when it is a list
Pushed(c)    == IsStream(c) /\ ~IsIter(c) /\ ListLen(c) = 0    \* completed by stream(res, ..), stream(res, None)

(* Response.prepare(): [hascl, cl, chunked, close] *)
Prepare(c, em, Defects) ==
  LET sized   == ~IsIter(c) /\ ("push_cl" \in Defects \/ ~IsStream(c))
      hascl   == sized /\ ("bodiless_body" \in Defects \/ c.status # 204)
      close0  == ~WantsKeepAlive(c) \/ c.body = "error"
      chunked == ~hascl /\ ~NoBodyStatus(c.status) /\ c.proto = 11 /\ em # "HEAD"
      close   == close0 \/ (~hascl /\ ~NoBodyStatus(c.status) /\ ~chunked)
  IN [hascl |-> hascl, cl |-> IF hascl THEN ListLen(c) ELSE -1, chunked |-> chunked, close |-> close]

Outcome(c, p, parse, bodylen, extra, closed, bodyeq) ==
  [parse |-> parse, ostatus |-> IF parse = "ok" THEN c.status ELSE 0, over |-> IF parse = "ok" THEN c.proto ELSE 0,
   hascl |-> parse = "ok" /\ p.hascl, cl |-> IF parse = "ok" THEN p.cl ELSE -1,
   chunked |-> parse = "ok" /\ p.chunked, bodylen |-> bodylen, extra |-> extra,
   cclose |-> parse = "ok" /\ c.proto = 11 /\ p.close, cka |-> parse = "ok" /\ c.proto = 10 /\ ~p.close,
   closed |-> closed, bodyeq |-> bodyeq]

(* HTTP._on_response / _on_stream for configuration c, served as method em:
   [o: outcome, stale: the pair stays in _clients] *)
Respond(c, em, Defects) ==
  LET p    == Prepare(c, em, Defects)
      n    == ExpLen(c)
      dead == /\ "stream_sized" \in Defects /\ c.stream /\ ~IsIter(c) /\ ListLen(c) > 0 /\ em # "HEAD"
              /\ ("bodiless_body" \in Defects \/ ~NoBodyStatus(c.status))
  IN
  IF dead THEN [o |-> Outcome(c, p, "livelock", 0, 0, TRUE, FALSE), stale |-> FALSE]
  ELSE IF em = "HEAD" THEN
    IF "head_noclose" \in Defects
    THEN IF Pushed(c)      \* the stream events are handled as for GET: raw data, then close
         THEN [o |-> Outcome(c, p, "ok", 0, n, p.close, n = 0), stale |-> FALSE]
         ELSE [o |-> Outcome(c, p, "ok", 0, 0, FALSE, n = 0), stale |-> TRUE]
    ELSE [o |-> Outcome(c, p, "ok", 0, 0, p.close, n = 0), stale |-> FALSE]
  ELSE IF NoBodyStatus(c.status) THEN
    IF "bodiless_body" \in Defects
    THEN [o |-> Outcome(c, p, "ok", 0, n, p.close, n = 0), stale |-> FALSE]
    ELSE [o |-> Outcome(c, p, "ok", 0, 0, p.close, n = 0), stale |-> FALSE]
  ELSE IF Pushed(c) /\ p.hascl THEN                 \* Content-Length: 0, then the pushed data
    [o |-> Outcome(c, p, "ok", 0, n, p.close, n = 0), stale |-> FALSE]
  ELSE IF /\ "empty_chunk" \in Defects /\ p.chunked /\ IsStream(c) /\ c.body \in {"genWithEmpty", "genAllEmpty"} THEN
    [o |-> Outcome(c, p, "ok", 0, 1, p.close, n = 0), stale |-> FALSE]
  ELSE IF /\ "chunk_noterm" \in Defects /\ p.chunked /\ IsIter(c) /\ ~IsStream(c) /\ n = 0 THEN
    [o |-> Outcome(c, p, "incomplete", 0, 0, p.close, FALSE), stale |-> FALSE]
  ELSE [o |-> Outcome(c, p, "ok", n, 0, p.close, TRUE), stale |-> FALSE]

InSeq(c) == c.conn \in SeqConns /\ c.status \in SeqStatuses /\ c.body \in SeqBodies
CfgOf(h) == [proto |-> h[1], method |-> h[2], conn |-> h[3], status |-> h[4], body |-> h[5], stream |-> h[6]]

XLine(i, c, o) ==
  [k |-> "x", i |-> i, proto |-> c.proto, method |-> c.method, conn |-> c.conn, status |-> c.status,
   body |-> c.body, stream |-> c.stream, explen |-> ExpLen(c), nresp |-> 0,
   parse |-> o.parse, ostatus |-> o.ostatus, over |-> o.over, hascl |-> o.hascl, cl |-> o.cl,
   chunked |-> o.chunked, bodylen |-> o.bodylen, extra |-> o.extra, cclose |-> o.cclose, cka |-> o.cka,
   closed |-> o.closed, bodyeq |-> o.bodyeq]

Emit(lines) == LET r == Run(P, lines, bad) IN P' = r[1] /\ bad' = r[2] /\ out' = out \o lines

Init == /\ dv \in DefectChoices
        /\ open = TRUE /\ stale = FALSE /\ k = 0 /\ P = P0 /\ bad = "" /\ hist = <<>> /\ out = <<>>

(* one request and its response; a stale pair makes the server treat the
   request as the HEAD it still remembers *)
Exchange(c) ==
  /\ open /\ k < MaxReq
  /\ IF k = 0 THEN TRUE ELSE InSeq(c) /\ InSeq(CfgOf(hist[1]))
  /\ LET em == IF stale THEN "HEAD" ELSE c.method
         r  == Respond(c, em, dv)
     IN /\ Emit(<<XLine(k + 1, c, r.o)>>)
        /\ open' = ~r.o.closed
        /\ stale' = r.stale
  /\ k' = k + 1
  /\ hist' = Append(hist, <<c.proto, c.method, c.conn, c.status, c.body, c.stream>>)
  /\ UNCHANGED dv

Next == \E c \in Cfgs : Exchange(c)

Spec == Init /\ [][Next]_vars

-----------------------------------------------------------------------------
TypeOK == /\ dv \subseteq AllDefects /\ open \in BOOLEAN /\ stale \in BOOLEAN /\ k \in 0..MaxReq /\ bad \in STRING

(* C15 as the monitor's verdict on every behaviour of the model *)
Conforms == bad = ""

(* C15 stated directly on the model's lines (independent of the fold): every
   response is Framed, announces exactly what happens to the connection, and a
   request is only ever answered on a connection every earlier response kept
   open (KeepAliveUsable) *)
Framed == \A j \in 1..Len(out) :
            /\ out[j].parse = "ok" /\ Framing(out[j]) = ""
            /\ out[j].closed = AnnouncedClose(out[j])
            /\ (Bodiless(out[j]) \/ out[j].bodyeq)
KeepAliveUsable == \A j \in 1..Len(out) : \A h \in 1..(j - 1) : ~out[h].closed
NoStalePair == dv = {} => ~stale

(* the same, for configurations that explore several defect sets at once (the
   history dumps): only the intended algorithm is held to the property *)
IConforms == dv = {} => Conforms
IFramed   == dv = {} => Framed

(* the model has teeth: every single defect makes some configuration violate
   the monitor already as the first request of a connection *)
Teeth == \A d \in AllDefects : \E c \in Cfgs : Allowed(XLine(1, c, Respond(c, c.method, {d}).o)) # ""
ASSUME Teeth
OpenIsNotClosed == out # <<>> => open = ~out[Len(out)].closed

(* Coarse view: hist and out are hidden.  Later steps depend only on open,
   stale, k and the monitor state, so every transition of every sequence is
   still generated and Conforms (bad is in the view) is decided for all of
   them; invariants that read `out` are only evaluated on one representative
   per class - use ViewLast for those. *)
View == <<dv, open, stale, k, P, bad>>

(* Fine view: the last line (and whether the
   one before it closed) stays, so that every configuration is a distinct state
   at every depth and the invariants above are evaluated on each of them *)
ViewLast == <<dv, open, stale, k, P, bad,
          IF out = <<>> THEN <<>> ELSE out[Len(out)],
          IF Len(out) < 2 THEN FALSE ELSE out[Len(out) - 1].closed>>
=============================================================================
