SPECIFICATION Spec
CONSTANTS
  Side = "server"
  Pool <- Few
  MaxMsgs = 1
  MaxCuts = 2
  Mode = "pm1"
  Defects <- AllDefects
  KeepOut = FALSE
INVARIANT TypeOK
CHECK_DEADLOCK FALSE
