SPECIFICATION Spec
CONSTANTS
  Side = "server"
  Pool <- Selected
  MaxMsgs = 1
  MaxCuts <- NoBound
  Mode = "bnd"
  Defects <- NoDefects
  KeepOut = FALSE
INVARIANT TypeOK
INVARIANT Conforms
INVARIANT EmitAtEnd
INVARIANT EmitOnce
INVARIANT NoSpuriousError
INVARIANT DeliveredIsEmitted
INVARIANT PrevIsCut
VIEW View
CHECK_DEADLOCK FALSE
