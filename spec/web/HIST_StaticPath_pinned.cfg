SPECIFICATION Spec
CONSTANTS
  MaxLen = 3
  Mounts = {"/", "/static"}
  FrontEnds = {"http", "direct"}
  Containment = "parent"
  TargetParse = "urlsplit"
  Probe = "stat"
  Exotic = {"n0", "fn", "nf", "dn", "xff", "long", "ap", "apf", "ap5"}
  ExoticMaxLen = 2
INVARIANT TypeOK

CHECK_DEADLOCK FALSE
