SPECIFICATION Spec
CONSTANTS
  MaxLen = 3
  Mounts = {"/", "/static"}
  FrontEnds = {"http", "direct"}
  Containment = "root"
  TargetParse = "origin"
  Probe = "stat"
  Exotic = {"n0", "fn", "nf", "dn", "xff", "long", "ap", "apf", "ap5"}
  ExoticMaxLen = 2
INVARIANT TypeOK
INVARIANT Conforms
INVARIANT ServedInside
INVARIANT CanonicalServed
CHECK_DEADLOCK FALSE
