SPECIFICATION Spec
CONSTANTS
  MaxLen = 2
  Mounts = {"/", "/static"}
  FrontEnds = {"http", "direct"}
  Containment = "parent"
  TargetParse = "origin"
INVARIANT TypeOK
INVARIANT Conforms
INVARIANT ServedInside
INVARIANT CanonicalServed
CHECK_DEADLOCK FALSE
