------------------------- MODULE HttpResponseOps -------------------------
(* C15 - the property, as a monitor over trace lines.

   One connection = one trace.  A line with k = "x" is one exchange: the
   configuration of the request/handler (what the environment chose) together
   with the outcome an independent HTTP client (http.client) decoded from the
   bytes the server wrote for it, and whether the server closed the connection:

     configuration
       i        position of the request on the connection (1, 2, ...)
       proto    10 | 11            request's HTTP version
       method   "GET" | "HEAD"
       conn     "none" | "keepalive" | "close"   what the request's Connection header
                MEANS (RFC 7230 6.1: a comma list of case-insensitive options;
                close wins over keep-alive), computed by the harness, not by circuits
       spell    how it was spelled: "canon" (close / keep-alive), "title" (Close /
                Keep-Alive), "upper", "list" (close, foo / keep-alive, foo)
       win      what the transport accepted per send() while the response was
                written (0 = everything; else partial accepts) - informative
       status   status the application set
       body     kind of handler result ("none", "empty", "str", "bytes", "list",
                "big", "gen", "genWithEmpty", "genEmptyMid", "file", "stream",
                "yield", "error")
       stream   BOOLEAN            application set response.stream
       explen   number of body bytes the application produced
     outcome
       parse    "ok" | "empty" (no bytes) | "nostatus" (status line / headers do
                not parse) | "incomplete" (ended before the delimiter said so)
                | "livelock" (the server never became quiescent)
       ostatus  decoded status      over   decoded version (10 | 11)
       hascl, cl     Content-Length present, its value
       chunked       Transfer-Encoding: chunked
       bodylen       body bytes recovered by the decoder
       extra         bytes the server wrote for this exchange beyond the end of
                     the message as delimited
       cclose, cka   Connection: close / keep-alive token in the response
       closed        the server fired close(sock) by the end of the exchange
       bodyeq        decoded body = bytes the application produced (projection,
                     decided in Python)
       refclosed     `closed` of the same exchange on the same tree when the wish is
                     spelled canonically (= closed for canonical spellings)
   A line with k = "end" closes the trace: i = number of exchanges, nresp =
   number of responses the decoder finds when it reads the whole connection
   output as one stream of successive messages.

   The relation is RFC 7230 section 3.3 restated (C15's statement):
     * HEAD / 1xx / 204 / 304: no body bytes at all;
     * otherwise exactly one delimiter: Content-Length = body length, or
       chunked (only towards HTTP/1.1), or connection close (then the
       connection must really be closed);
     * closed <=> announced, where announced means Connection: close, or an
       HTTP/1.0 response without Connection: keep-alive, or close-delimited;
     * the request's wish is what its Connection header means, however it is
       spelled: the close / keep-alive decision is the one taken for the
       canonical spelling of the same wish (wish_spelling);
     * a request that asks for Connection: close gets the connection closed
       ("as the request's ... keep-alive wishes require"; RFC 7230 6.6);
     * on a connection kept open the next request is answered, by the same
       rules.
   Whether a 204 may carry a Content-Length *header*, which headers are sent,
   and what happens to bytes written after close(sock) are not part of the
   statement: every outcome is allowed there.                               *)
EXTENDS Integers, Sequences

P0 == [n |-> 0, closed |-> FALSE]

Bodiless(ln) == \/ ln.method = "HEAD"
                \/ (ln.ostatus >= 100 /\ ln.ostatus < 200)
                \/ ln.ostatus \in {204, 304}

CloseDelimited(ln) == ~Bodiless(ln) /\ ~ln.hascl /\ ~ln.chunked

AnnouncedClose(ln) == \/ ln.cclose
                      \/ (ln.over = 10 /\ ~ln.cka)
                      \/ CloseDelimited(ln)

(* the framing relation on one decoded exchange *)
Framing(ln) ==
  IF ln.chunked /\ (ln.proto = 10 \/ ln.over = 10) THEN "C15.chunked_on_10"
  ELSE IF Bodiless(ln) THEN
         IF ln.bodylen > 0 \/ ln.extra > 0 THEN "C15.body_on_bodiless" ELSE ""
  ELSE IF ln.hascl /\ ln.chunked THEN "C15.length_mismatch"
  ELSE IF ln.hascl /\ (ln.cl # ln.bodylen \/ ln.extra > 0) THEN "C15.length_mismatch"
  ELSE IF ln.chunked /\ ln.extra > 0 THEN "C15.length_mismatch"
  ELSE IF CloseDelimited(ln) /\ ~ln.closed THEN "C15.unterminated"
  ELSE ""

Allowed(ln) ==
  IF ln.parse \in {"empty", "nostatus", "livelock"} THEN "C15.unparseable"
  ELSE IF ln.parse = "incomplete" THEN
         IF ln.hascl /\ ~ln.chunked THEN "C15.length_mismatch" ELSE "C15.unterminated"
  ELSE IF ln.parse # "ok" THEN "C15.unparseable"
  ELSE IF ln.ostatus # ln.status THEN "C15.status_differs"
  ELSE IF Framing(ln) # "" THEN Framing(ln)
  ELSE IF ln.closed # AnnouncedClose(ln) THEN "C15.close_mismatch"
  ELSE IF ln.conn = "close" /\ ~ln.closed THEN "C15.close_wish_ignored"
  ELSE IF ln.closed # ln.refclosed THEN "C15.wish_spelling"
  ELSE IF ~Bodiless(ln) /\ ~ln.bodyeq THEN "C15.body_differs"
  ELSE ""

Fail(P, ln) ==
  CASE ln.k = "x" ->
         IF P.closed THEN ""        \* sent on a connection the server had closed: no answer is owed
         ELSE IF P.n > 0 /\ ln.parse \in {"empty", "nostatus", "livelock"} THEN "C15.next_request"
         ELSE Allowed(ln)
    [] ln.k = "end" ->
         IF ln.nresp # P.n \/ ln.extra > 0 THEN "C15.next_request" ELSE ""
    [] OTHER -> ""

Apply(P, ln) ==
  CASE ln.k = "x" -> [n |-> P.n + 1, closed |-> P.closed \/ ln.closed]
    [] OTHER -> P

RECURSIVE Run(_, _, _)
Run(P, lines, badSoFar) ==
  IF lines = <<>> THEN <<P, badSoFar>>
  ELSE LET ln == Head(lines)
           f  == IF badSoFar = "" THEN Fail(P, ln) ELSE badSoFar
       IN Run(Apply(P, ln), Tail(lines), f)
=============================================================================
