SPECIFICATION Spec
CONSTANTS
  Side = "server"
  Pool <- Two
  MaxMsgs = 1
  MaxCuts = 3
  Mode = "bnd"
  Defects <- AllDefects
  KeepOut = FALSE
INVARIANT TypeOK
CHECK_DEADLOCK FALSE
