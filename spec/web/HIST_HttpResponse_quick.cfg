SPECIFICATION Spec
CONSTANTS
  Protos = {10, 11}
  Methods = {"GET", "HEAD"}
  Conns = {"none", "keepalive", "close"}
  Statuses = {200, 201, 203, 204, 205, 206, 300, 304, 404, 500}
  Bodies = {"none", "empty", "str", "bytes", "list", "big", "gen", "genWithEmpty", "genEmptyMid", "genAllEmpty", "genBig", "file", "fileCL", "trickle", "stream", "yield", "error"}
  Flags = {TRUE, FALSE}
  Spells = {"canon", "title", "upper", "list"}
  Wins = {0, 1, 4000}
  SeqConns = {"keepalive", "close"}
  SeqStatuses = {200, 204}
  SeqBodies = {"str", "stream"}
  SeqSpells = {"canon", "title"}
  MaxReq = 2
  DefectChoices = {{}}
INVARIANT TypeOK
INVARIANT IConforms
INVARIANT IFramed
INVARIANT KeepAliveUsable
INVARIANT NoStalePair
INVARIANT OpenIsNotClosed
CHECK_DEADLOCK FALSE
