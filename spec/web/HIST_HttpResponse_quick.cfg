SPECIFICATION Spec
CONSTANTS
  Protos = {10, 11}
  Methods = {"GET", "HEAD"}
  Conns = {"none", "keepalive", "close"}
  Statuses = {200, 201, 204, 304, 404, 500}
  Bodies = {"none", "empty", "str", "bytes", "list", "big", "gen", "genWithEmpty", "genEmptyMid", "genAllEmpty", "file", "stream", "yield", "error"}
  Flags = {TRUE, FALSE}
  SeqConns = {"keepalive", "close"}
  SeqStatuses = {200, 204}
  SeqBodies = {"str", "stream"}
  MaxReq = 2
  DefectChoices = {{}, {"head_noclose", "bodiless_body", "push_cl", "empty_chunk", "chunk_noterm", "stream_sized"}}
INVARIANT TypeOK
INVARIANT IConforms
INVARIANT IFramed
INVARIANT KeepAliveUsable
INVARIANT NoStalePair
INVARIANT OpenIsNotClosed
CHECK_DEADLOCK FALSE
