SPECIFICATION Spec
CONSTANTS
  Protos = {10, 11}
  Methods = {"GET", "HEAD"}
  Conns = {"none", "keepalive", "close"}
  Statuses = {200, 201, 203, 204, 205, 206, 300, 304, 404, 500}
  Bodies = {"none", "empty", "str", "bytes", "list", "big", "gen", "genWithEmpty", "genEmptyMid", "genAllEmpty", "genBig", "file", "fileCL", "trickle", "stream", "yield", "error"}
  Flags = {TRUE, FALSE}
  Spells = {"canon", "title", "upper", "list"}
  Wins = {0, 1, 4000}
  SeqConns = {"none", "keepalive", "close"}
  SeqStatuses = {200, 201, 203, 204, 205, 206, 300, 304, 404, 500}
  SeqBodies = {"none", "empty", "str", "bytes", "list", "big", "gen", "genWithEmpty", "genEmptyMid", "genAllEmpty", "genBig", "file", "fileCL", "trickle", "stream", "yield", "error"}
  SeqSpells = {"canon", "title", "upper", "list"}
  MaxReq = 3
  DefectChoices = {{}}
INVARIANT TypeOK
INVARIANT Conforms
INVARIANT Framed
INVARIANT KeepAliveUsable
INVARIANT NoStalePair
INVARIANT OpenIsNotClosed
VIEW ViewLast
CHECK_DEADLOCK FALSE
