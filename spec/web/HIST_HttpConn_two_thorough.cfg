SPECIFICATION Spec
CONSTANTS
  NConn = 2
  MaxIn = 2
  MaxSteps = 5
  Classes = {"GoodKA", "BadLine", "BadCL", "TlsHello", "Truncate", "Rest"}
  Racing = FALSE
  Linger = FALSE
  DefectSets = {{}, {"echo505", "cookieecho"}}
INVARIANT TypeOK
CHECK_DEADLOCK FALSE
