SPECIFICATION Spec
CONSTANTS
  Side = "server"
  Pool <- Selected
  MaxMsgs = 1
  MaxCuts = 1
  Mode = "all"
  Defects <- AllDefects
  KeepOut = TRUE
INVARIANT TypeOK
CHECK_DEADLOCK FALSE
