--------------------------- MODULE HttpFramingOps ---------------------------
(* C13 - the property, as a monitor over trace lines.

   Everything works on *layouts*, never on bytes.  A message layout is a record
     [line     |-> n,            length of the first line (request / status line), CRLF excluded
      hdrs     |-> <<n, ...>>,   length of every line of the header block, CRLF excluded
                                 (a continuation line is a line of its own)
      body     |-> "none" | "cl" | "chunked" | "close",
      cl       |-> n,            body length for "cl" and "close" (read-until-close), else 0
      chunks   |-> <<[sz |-> n, ext |-> n], ...>>   data length / length of the chunk extension
      trailers |-> <<n, ...>>,   length of every trailer line
      ...]                       (further keys - tags that tell the harness how to
                                  realise the layout as bytes - are ignored here)
   from which the offset of every CRLF, of the header terminator and of the
   end of the message are derived (operators below).  A trace is
     [cfg |-> [side |-> "server" | "client", msgs |-> <<layout, ...>>], lines |-> <<line, ...>>]
   msgs = the messages sent on one connection, each one after the answer to
   the previous one (keep-alive, no pipelining).  A line is a flat record
     [k, m, a, pos, d]:
     k="read"       a bytes of message m were handed to the component in one
                    read event; pos = bytes of m delivered so far (after it)
     k="emit"       the component produced its event for the current message
                    (server: `request` seen by a handler; client: `response`);
                    d = set of flags (sum of powers of two), one per field of the
                    event's projection that differs from the event produced when
                    the same bytes are delivered in one piece on the same tree:
                    1 status, 2 method, 4 path, 8 query string, 16 protocol
                    version, 32 header multiset, 64 body - equality is decided
                    by the harness, the verdict by the monitor
     k="error"      a = status of a 4xx/5xx response written by the server, or
                    2000 for an `exception` event
     k="resp"       server side, at quiescence after message m was delivered:
                    d = 128 iff the bytes written in answer (Date masked) or the
                    closing of the connection differ from one-piece delivery
     k="peerclose"  the peer closed the connection (ends a read-until-close body)
     k="quiet"      nothing is queued any more after message m was delivered
                    (and, for read-until-close, the peer closed)
     k="next"       the peer starts the next message of the connection
   The monitor state is the record P; Fail(C, P, ln) names the clause of C13
   the line violates ("" if none); Apply(C, P, ln) is the next monitor state.
   "C13.malformed" is not a clause of the property: it says the *harness*
   wrote an impossible trace (machinery error).                              *)
EXTENDS Integers, Sequences

RECURSIVE LinesLen(_)
LinesLen(s) == IF s = <<>> THEN 0 ELSE Head(s) + 2 + LinesLen(Tail(s))

HexDigits(n) == IF n < 16 THEN 1 ELSE IF n < 256 THEN 2 ELSE IF n < 4096 THEN 3 ELSE IF n < 65536 THEN 4 ELSE 5

(* size line (hex digits, extension) CRLF data CRLF *)
ChunkLen(c) == HexDigits(c.sz) + c.ext + 2 + c.sz + 2
RECURSIVE ChunksLen(_)
ChunksLen(cs) == IF cs = <<>> THEN 0 ELSE ChunkLen(Head(cs)) + ChunksLen(Tail(cs))

LineEnd(L)     == L.line + 2                                  \* first byte after the first line's CRLF
HdrEnd(L)      == LineEnd(L) + LinesLen(L.hdrs) + 2           \* first byte after the header terminator
LastSizeEnd(L) == HdrEnd(L) + ChunksLen(L.chunks) + 3         \* first byte after the "0" CRLF of the last chunk
BodyLen(L) ==
  CASE L.body = "none"    -> 0
    [] L.body = "cl"      -> L.cl
    [] L.body = "close"   -> L.cl
    [] L.body = "chunked" -> ChunksLen(L.chunks) + 3 + LinesLen(L.trailers) + 2
Total(L) == HdrEnd(L) + BodyLen(L)                            \* length of the message

(* structural boundaries: offsets o such that a cut between byte o-1 and byte
   o separates two syntactic elements (before / after every CR LF pair, chunk
   size | data, the ends)                                                    *)
RECURSIVE LineBounds(_, _)
LineBounds(s, from) == IF s = <<>> THEN {}
                       ELSE {from + Head(s), from + Head(s) + 2} \cup LineBounds(Tail(s), from + Head(s) + 2)
RECURSIVE ChunkBounds(_, _)
ChunkBounds(cs, from) ==
  IF cs = <<>> THEN {}
  ELSE LET c == Head(cs)
           d == HexDigits(c.sz)
       IN {from + d, from + d + c.ext, from + d + c.ext + 2,
           from + d + c.ext + 2 + c.sz, from + ChunkLen(c)} \cup ChunkBounds(Tail(cs), from + ChunkLen(c))
Boundaries(L) ==
  {L.line, LineEnd(L)} \cup LineBounds(L.hdrs, LineEnd(L)) \cup {HdrEnd(L) - 2, HdrEnd(L), Total(L)}
  \cup (IF L.body = "chunked"
        THEN ChunkBounds(L.chunks, HdrEnd(L))
             \cup {LastSizeEnd(L) - 2, LastSizeEnd(L)} \cup LineBounds(L.trailers, LastSizeEnd(L))
             \cup {Total(L) - 2}
        ELSE {})

-----------------------------------------------------------------------------
P0 == [m |-> 1, pos |-> 0, emitted |-> 0, closed |-> FALSE, errors |-> 0]

Line(k, m, a, pos) == [k |-> k, m |-> m, a |-> a, pos |-> pos, d |-> 0]
Flag(d, bit) == (d \div bit) % 2 = 1

InRange(C, P)  == P.m >= 1 /\ P.m <= Len(C.msgs)
(* every byte of the current message was delivered (a read-until-close body
   also needs the close); a bodiless request ends at its header terminator  *)
Delivered(C, P) == /\ InRange(C, P)
                   /\ P.pos = Total(C.msgs[P.m])
                   /\ (C.msgs[P.m].body = "close" => P.closed)

Fail(C, P, ln) ==
  CASE ln.k = "read" ->
         IF ~InRange(C, P) THEN "C13.malformed"
         ELSE IF ln.m # P.m \/ ln.a < 1 \/ ln.pos # P.pos + ln.a \/ ln.pos > Total(C.msgs[P.m]) \/ P.closed
              THEN "C13.malformed"
         ELSE ""
    [] ln.k = "emit" ->
         IF P.emitted > 0 THEN "C13.twice"
         ELSE IF ~Delivered(C, P) THEN "C13.early"
         ELSE IF Flag(ln.d, 1) THEN "C13.differs_status"
         ELSE IF Flag(ln.d, 2) THEN "C13.differs_method"
         ELSE IF Flag(ln.d, 4) THEN "C13.differs_path"
         ELSE IF Flag(ln.d, 8) THEN "C13.differs_query"
         ELSE IF Flag(ln.d, 16) THEN "C13.differs_version"
         ELSE IF Flag(ln.d, 32) THEN "C13.differs_headers"
         ELSE IF Flag(ln.d, 64) THEN "C13.differs_body"
         ELSE ""
    [] ln.k = "error" -> "C13.spurious_error"       \* every layout of a trace is well-formed
    [] ln.k = "resp" -> IF Flag(ln.d, 128) THEN "C13.differs_response" ELSE ""
    [] ln.k = "peerclose" ->
         IF ~InRange(C, P) THEN "C13.malformed"
         ELSE IF C.msgs[P.m].body # "close" \/ P.pos # Total(C.msgs[P.m]) \/ P.closed THEN "C13.malformed"
         ELSE ""
    [] ln.k = "quiet" ->
         IF Delivered(C, P) /\ P.emitted = 0 THEN "C13.never" ELSE ""
    [] ln.k = "next" ->
         IF ~Delivered(C, P) \/ P.m >= Len(C.msgs) THEN "C13.malformed" ELSE ""
    [] OTHER -> "C13.malformed"

Apply(C, P, ln) ==
  CASE ln.k = "read"      -> [P EXCEPT !.pos = ln.pos]
    [] ln.k = "emit"      -> [P EXCEPT !.emitted = @ + 1]
    [] ln.k = "error"     -> [P EXCEPT !.errors = @ + 1]
    [] ln.k = "peerclose" -> [P EXCEPT !.closed = TRUE]
    [] ln.k = "next"      -> [P EXCEPT !.m = @ + 1, !.pos = 0, !.emitted = 0, !.closed = FALSE]
    [] OTHER -> P

(* Fold a sequence of lines through the monitor: returns <<P', firstBad>>,
   firstBad = "" if none of them fails.                                     *)
RECURSIVE Run(_, _, _, _)
Run(C, P, lines, badSoFar) ==
  IF lines = <<>> THEN <<P, badSoFar>>
  ELSE LET ln == Head(lines)
           f  == IF badSoFar = "" THEN Fail(C, P, ln) ELSE badSoFar
       IN Run(C, Apply(C, P, ln), Tail(lines), f)
=============================================================================
