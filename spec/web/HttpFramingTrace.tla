-------------------------- MODULE HttpFramingTrace --------------------------
(* C13 - trace specification: judges traces recorded from the real
   circuits.web.http.HTTP component (server side) and the real
   circuits.protocols.http.HTTP component (client side) with the monitor of
   HttpFramingOps (the same operators the generative model HttpFraming.tla is
   checked against).  A trace is
     [cfg |-> [side, msgs |-> <<layout, ...>>], lines |-> <<line, ...>>]
   cfg is what the harness composed (the layouts of the messages of one
   connection), lines what it did and observed.  One initial state per trace;
   each step consumes one line; the verdict is total: the first failing clause
   is kept in `bad` and consumption goes on.                                *)
EXTENDS HttpFramingOps, Json, IOUtils, TLC

Traces == JsonDeserialize(IOEnv.TRACE_FILE)

VARIABLES tid, l, P, bad, badline
vars == <<tid, l, P, bad, badline>>

Init == /\ tid \in 1..Len(Traces) /\ l = 1 /\ P = P0 /\ bad = "" /\ badline = 0

Next == /\ l <= Len(Traces[tid].lines)
        /\ LET C  == Traces[tid].cfg
               ln == Traces[tid].lines[l]
               f  == Fail(C, P, ln)
           IN /\ bad' = IF bad = "" THEN f ELSE bad
              /\ badline' = IF bad = "" /\ f # "" THEN l ELSE badline
              /\ P' = Apply(C, P, ln)
        /\ l' = l + 1
        /\ UNCHANGED tid

Spec == Init /\ [][Next]_vars

(* reported once per trace, when its last line has been consumed *)
Report == (l = Len(Traces[tid].lines) + 1) => PrintT(<<"VERDICT", tid, bad, badline>>)
=============================================================================
