SPECIFICATION Spec
CONSTANTS
  Sides = {"server"}
  Plans <- PlansPinned
  Defects = {"lastchunk"}
INVARIANT TypeOK
INVARIANT Conforms
VIEW View
CHECK_DEADLOCK FALSE
