SPECIFICATION Spec
CONSTANTS
  Sizes = {0, 1, 10}
  Bounds = {0, 1, 5, 9, 10, 11}
  BadKinds = {1, 2, 3, 4, 5, 6, 7, 8, 9, 10, 11}
  MaxSpecs = 1
  FrontEnds = {"http", "direct"}
  Variant = "pinned"
INVARIANT TypeOK
INVARIANT Conforms
INVARIANT WithinFile
CHECK_DEADLOCK FALSE
