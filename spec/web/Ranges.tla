------------------------------- MODULE Ranges -------------------------------
(* C16 (byte-range half) - generative model: the environment chooses a file
   size, a front end and a Range header (a sequence of specs); the system
   answers the way circuits.web.utils.get_ranges + circuits.web.tools.serve_file
   + Response.prepare answer, shaped like the code:

     get_ranges   walk the specs in order: skip an unsatisfiable one, give up
                  (None = ignore the header) on an invalid one, collect
                  (start, stop) pairs without duplicates; more than one pair
                  whose lengths have a standard deviation > 2.0 =>
                  RangeUnsatisfiable (416 without Content-Range);
     serve_file   None => 200 full file; [] => 416 "bytes */size"; one pair =>
                  206 single part; several => multipart/byteranges (chunked).

   Every exchange emits the trace lines of RangesOps and runs them through the
   C16 monitor; Conforms says the monitor never flags the model.

   Variant = "rfc"    the intended algorithm (the proposed fix): anything that
                      is not a byte-range-spec, or has last < first, makes the
                      header ignored; last-byte-pos is clamped to size-1; a
                      suffix longer than the file means the whole file; a
                      zero-length suffix or an empty file is unsatisfiable.
   Variant = "isdigit" "rfc", except that a number is whatever str.isdigit()
                      accepts: U+00B2 passes the syntax check and int() raises
                      (500) - the tree before fixes/C16-range-ascii-digits.diff.
   Variant = "intparse" "rfc", except that a number is whatever int() accepts:
                      signs and digit-group underscores are honoured (206), a
                      negative suffix length ends in a 500 (seeded C16-7).
   Variant = "pinned" the algorithm of the pinned tree: no clamping, int() on
                      whatever is there (ValueError => 500), suffix start may
                      be negative (seek fails => 500 / broken multipart),
                      "-0" gives an empty 206, reversed is only noticed when
                      first < size.  A generator, never an oracle.            *)
EXTENDS RangesOps, TLC

CONSTANTS Sizes, Bounds, BadKinds, MaxSpecs, FrontEnds, Variant

VARIABLES phase, P, bad, hist, out
vars == <<phase, P, bad, hist, out>>

Emit(lines) == LET r == Run(P, lines, bad) IN P' = r[1] /\ bad' = r[2] /\ out' = out \o lines

SpecSet == {Spc("closed", a, b) : a \in Bounds, b \in Bounds}
           \cup {Spc("open", a, -1) : a \in Bounds}
           \cup {Spc("suffix", a, -1) : a \in Bounds}
           \cup {Spc("bad", j, -1) : j \in BadKinds}

-----------------------------------------------------------------------------
(* circuits/web/utils.py get_ranges *)
Res(tag, r) == [tag |-> tag, r |-> r]
InSeq(x, s) == \E i \in 1..Len(s) : s[i] = x
AddU(acc, pr) == IF InSeq(pr, acc) THEN acc ELSE Append(acc, pr)

RECURSIVE GR(_, _, _)
GR(specs, size, acc) ==
  IF specs = <<>> THEN Res("list", acc)
  ELSE LET sp == Head(specs)
           rest == Tail(specs)
       IN
       IF sp.kind = "bad" /\ Variant = "intparse" /\ sp.a \in {6, 7, 8} THEN
            \* int("+5") = 5, int("+1") = 1, int("1_0") = 10: honoured as 1-5, 1-5, 10-20
            GR(<<IF sp.a = 8 THEN Spc("closed", 10, 20) ELSE Spc("closed", 1, 5)>> \o rest, size, acc)
       ELSE IF sp.kind = "bad" THEN
            (IF Variant = "intparse" THEN (IF sp.a = 9 THEN Res("raise500", <<>>) ELSE Res("none", <<>>))  \* "--5": suffix of length -5
             ELSE IF Variant = "isdigit" THEN (IF sp.a = 10 THEN Res("raise500", <<>>) ELSE Res("none", <<>>))
             ELSE IF Variant = "rfc" \/ sp.a = 3 THEN Res("none", <<>>) ELSE Res("raise500", <<>>))
       ELSE IF sp.kind = "suffix" THEN
            (IF Variant # "pinned"
             THEN (IF sp.a = 0 \/ size = 0 THEN GR(rest, size, acc)
                   ELSE GR(rest, size, AddU(acc, <<Max2(0, size - sp.a), size>>)))
             ELSE GR(rest, size, AddU(acc, <<size - sp.a, size>>)))
       ELSE LET stop == IF sp.kind = "open" THEN size - 1 ELSE sp.b IN
            IF Variant # "pinned"
            THEN (IF sp.kind = "closed" /\ sp.b < sp.a THEN Res("none", <<>>)
                  ELSE IF sp.a >= size THEN GR(rest, size, acc)
                  ELSE GR(rest, size, AddU(acc, <<sp.a, Min2(stop, size - 1) + 1>>)))
            ELSE (IF sp.a >= size THEN GR(rest, size, acc)
                  ELSE IF stop < sp.a THEN Res("none", <<>>)
                  ELSE GR(rest, size, AddU(acc, <<sp.a, stop + 1>>)))

RECURSIVE SumLen(_), SumSq(_)
SumLen(r) == IF r = <<>> THEN 0 ELSE (Head(r)[2] - Head(r)[1]) + SumLen(Tail(r))
SumSq(r)  == IF r = <<>> THEN 0 ELSE (Head(r)[2] - Head(r)[1]) * (Head(r)[2] - Head(r)[1]) + SumSq(Tail(r))
(* population standard deviation of the lengths > 2.0 *)
TooSpread(r) == Len(r) * SumSq(r) - SumLen(r) * SumLen(r) > 4 * Len(r) * Len(r)

GetRanges(specs, size) ==
  IF specs = <<>> THEN Res("none", <<>>)
  ELSE LET g == GR(specs, size, <<>>)
       IN IF g.tag = "list" /\ Len(g.r) > 1 /\ TooSpread(g.r) THEN Res("raise416", <<>>) ELSE g

-----------------------------------------------------------------------------
(* circuits/web/tools.py serve_file + wrappers.Response.prepare, as lines *)
DataLen(pr, size) == Max2(0, Min2(pr[2], size) - pr[1])          \* read() stops at end of file
DataOff(pr, size) == IF DataLen(pr, size) = 0 THEN 0 ELSE pr[1]
CrForm(pr) == IF pr[1] < 0 \/ pr[2] - 1 < 0 THEN "garbled" ELSE "range"

PartLine(pr, size) ==
  IF CrForm(pr) = "garbled" THEN Line("part", "garbled", -1, -1, -1, DataOff(pr, size), DataLen(pr, size))
  ELSE Line("part", "range", pr[1], pr[2] - 1, size, DataOff(pr, size), DataLen(pr, size))

RECURSIVE PartLines(_, _)
PartLines(r, size) == IF r = <<>> THEN <<>> ELSE <<PartLine(Head(r), size)>> \o PartLines(Tail(r), size)

NegStart(r) == \E i \in 1..Len(r) : r[i][1] < 0

Answer(specs, size) ==
  LET g == GetRanges(specs, size) IN
  CASE g.tag = "none"     -> <<Line("resp", "none", 200, -1, -1, -1, size), Line("body", "slice", 0, size, 0, 0, 0)>>
    [] g.tag = "raise500" -> <<Line("resp", "none", 500, -1, -1, -1, -1)>>
    [] g.tag = "raise416" -> <<Line("resp", "none", 416, -1, -1, -1, -1)>>
    [] g.tag = "list" /\ g.r = <<>> -> <<Line("resp", "star", 416, -1, -1, size, -1)>>
    [] g.tag = "list" /\ Len(g.r) = 1 ->
         LET pr == g.r[1] IN
         IF pr[1] < 0 THEN <<Line("resp", "none", 500, -1, -1, -1, -1)>>       \* seek() to a negative offset
         ELSE <<IF CrForm(pr) = "garbled"
                THEN Line("resp", "garbled", 206, -1, -1, -1, DataLen(pr, size))
                ELSE Line("resp", "range", 206, pr[1], pr[2] - 1, size, DataLen(pr, size)),
                Line("body", "slice", DataOff(pr, size), DataLen(pr, size), 0, 0, 0)>>
    [] OTHER ->
         IF NegStart(g.r)
         THEN <<Line("resp", "none", 206, -1, -1, -1, -1), Line("body", "garbled", -1, 0, 0, 0, 0)>>  \* the generator dies after the head went out
         ELSE <<Line("resp", "none", 206, -1, -1, -1, -1), Line("body", "multipart", -1, 0, 0, 0, 0)>>
              \o PartLines(g.r, size)

RECURSIVE SpecLines(_)
SpecLines(specs) == IF specs = <<>> THEN <<>>
                    ELSE <<Line("spec", Head(specs).kind, Head(specs).a, Head(specs).b, 0, 0, 0)>> \o SpecLines(Tail(specs))

-----------------------------------------------------------------------------
AddSpec(sp) ==
  /\ phase = "build" /\ Len(hist[3]) < MaxSpecs
  /\ hist' = [hist EXCEPT ![3] = Append(@, sp)]
  /\ UNCHANGED <<phase, P, bad, out>>

Exchange ==
  /\ phase = "build"
  /\ phase' = "done"
  /\ UNCHANGED hist
  /\ LET size == hist[1]
         specs == hist[3]
     IN Emit(<<Line("req", hist[2], size, Len(specs), 0, 0, 0)>> \o SpecLines(specs)
             \o Answer(specs, size) \o <<Line("end", "", 0, 0, 0, 0, 0)>>)

Init == /\ phase = "build" /\ P = P0 /\ bad = "" /\ out = <<>>
        /\ hist \in {<<sz, f, <<>>>> : sz \in Sizes, f \in FrontEnds}

Next == (\E sp \in SpecSet : AddSpec(sp)) \/ Exchange

Spec == Init /\ [][Next]_vars

-----------------------------------------------------------------------------
TypeOK == phase \in {"build", "done"} /\ bad \in STRING

(* C16 as the monitor's verdict on every exchange of the model *)
Conforms == bad = ""

(* stated directly on the model: no answer names or carries a byte beyond the
   file, and there is no 5xx *)
WithinFile ==
  phase = "done" =>
    LET size == hist[1]
        ok(ln) == CASE ln.k = "resp" -> ln.a < 500 /\ (ln.s = "range" => ln.c <= size - 1) /\ ln.s # "garbled"
                    [] ln.k = "body" -> ln.s \in {"slice", "multipart"} /\ (ln.s = "slice" => ln.a + ln.b <= size)
                    [] ln.k = "part" -> ln.s = "range" /\ ln.b <= size - 1 /\ ln.d + ln.e <= size
                    [] OTHER -> TRUE
    IN \A i \in 1..Len(out) : ok(out[i])
=============================================================================
