SPECIFICATION Spec
CONSTANTS
  MaxLen = 4
  Mounts = {"/", "/static"}
  FrontEnds = {"http", "direct"}
  Containment = "root"
  TargetParse = "origin"
INVARIANT TypeOK
INVARIANT Conforms
INVARIANT ServedInside
INVARIANT CanonicalServed
CHECK_DEADLOCK FALSE
