SPECIFICATION Spec
CONSTANTS
  MaxLen = 4
  Mounts = {"/", "/static"}
  FrontEnds = {"http", "direct"}
  Containment = "root"
  TargetParse = "origin"
  Probe = "exists"
  Exotic = {"n0", "fn", "nf", "dn", "xff", "long", "ap", "apf", "ap5"}
  ExoticMaxLen = 3
INVARIANT TypeOK
INVARIANT Conforms
INVARIANT ServedInside
INVARIANT CanonicalServed
CHECK_DEADLOCK FALSE
