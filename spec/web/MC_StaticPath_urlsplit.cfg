SPECIFICATION Spec
CONSTANTS
  MaxLen = 3
  Mounts = {"/", "/static"}
  FrontEnds = {"http", "direct"}
  Containment = "root"
  TargetParse = "urlsplit"
INVARIANT TypeOK
INVARIANT Conforms
INVARIANT ServedInside
INVARIANT CanonicalServed
CHECK_DEADLOCK FALSE
