SPECIFICATION Spec
CONSTANTS
  Sides = {"server", "client"}
  Plans <- PlansHistThorough
  Defects <- AllDefects
INVARIANT TypeOK
CHECK_DEADLOCK FALSE
