SPECIFICATION Spec
CONSTANTS
  Sides = {"server"}
  Plans <- PlansPinned
  Defects <- AllDefects
INVARIANT TypeOK
INVARIANT Conforms
VIEW View
CHECK_DEADLOCK FALSE
