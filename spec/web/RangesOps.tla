----------------------------- MODULE RangesOps -----------------------------
(* C16 (byte-range half) - the property, as a monitor over trace lines.

   A Range header is "bytes=" s1 "," s2 ...; a spec is a record [kind, a, b]:
     closed  a-b        open  a-        suffix  -a  (last a bytes)
     bad     not a byte-range-spec; a picks the spelling:
             1 "abc-"   2 "5" (no dash)   3 "-"   4 "-xyz"   5 "2-x"
             6 "1-+5"   7 "+1-5" (signed numbers)   8 "1_0-2_0" (digit groups)
             9 "--5" (signed suffix length)   10 "\u00B2-5" (SUPERSCRIPT TWO: a
             digit for str.isdigit(), not for int(), not for the RFC)
             11 "1 0-5" (blank inside a number)
   (b = -1 where unused).  The file has `size` distinct bytes, so a body that is
   a slice of it has one offset.

   Trace lines (keys k, s, a, b, c, d, e on every line):
     k="req"   a = size, b = number of specs (0: no Range header), s = front end
     k="spec"  s = kind, a, b
     k="resp"  a = status (0: nothing was written), s = Content-Range form
               "none" | "range" (b-c/d) | "star" (asterisk/d) | "garbled",
               e = Content-Length (-1 absent, -2 not a number); for a status
               outside 2xx the driver reports e = -1
     k="body"  (2xx only) s = "slice" (a = offset, b = length; an empty body is
               the slice 0,0) | "multipart" | "other" (not a slice of the file)
               | "garbled" (framing cannot be decoded)
     k="part"  one per multipart part: s = "range" | "garbled" (its Content-Range),
               a-b/c, d = offset of the part's data in the file (-1: not a
               slice; 0 for empty data), e = length of the data
     k="end"

   RFC 7233, as C16 states it:
     * no header, or a header with a spec that is not a byte-range-spec or has
       last < first (2.1: "MUST ignore the header field"): 200, the full file;
     * valid header, nothing satisfiable (first-byte-pos >= size everywhere,
       suffix-length 0, or an empty file): 416 (Content-Range, if sent, must be
       "bytes */size") - or 200 with the full file (a server MAY ignore Range);
     * exactly one spec, satisfiable: 206, body = file[first .. Min(last,
       size-1)], Content-Range naming exactly those bytes and the size,
       Content-Length (if sent) = number of body bytes;
     * several specs: multipart/byteranges 206 whose parts are each exact and
       together cover exactly the requested bytes (order, overlap, coalescing
       are the server's choice), or a single-part 206 when the requested bytes
       are one interval, or 200 full, or 416;
     * never 5xx, never a byte beyond the file.                               *)
EXTENDS Integers, Sequences, FiniteSets

Line(k, s, a, b, c, d, e) == [k |-> k, s |-> s, a |-> a, b |-> b, c |-> c, d |-> d, e |-> e]
Spc(kind, a, b) == [kind |-> kind, a |-> a, b |-> b]

Min2(x, y) == IF x < y THEN x ELSE y
Max2(x, y) == IF x > y THEN x ELSE y

ValidSpec(sp) == sp.kind \in {"closed", "open", "suffix"} /\ (sp.kind = "closed" => sp.a <= sp.b)
SatSpec(sp, size) == size > 0 /\ (IF sp.kind = "suffix" THEN sp.a > 0 ELSE sp.a < size)
Lo(sp, size) == IF sp.kind = "suffix" THEN Max2(0, size - sp.a) ELSE sp.a
Hi(sp, size) == IF sp.kind = "closed" THEN Min2(sp.b, size - 1) ELSE size - 1

(* the requested bytes *)
Want(specs, size) ==
  {i \in 0..(size - 1) : \E j \in 1..Len(specs) :
       SatSpec(specs[j], size) /\ Lo(specs[j], size) <= i /\ i <= Hi(specs[j], size)}

SetMin(S) == CHOOSE x \in S : \A y \in S : x <= y
SetMax(S) == CHOOSE x \in S : \A y \in S : x >= y
(* first and last requested byte, from the (few) specs rather than from the (large) set *)
SatIdx(specs, size) == {j \in 1..Len(specs) : SatSpec(specs[j], size)}
WantMin(specs, size) == SetMin({Lo(specs[j], size) : j \in SatIdx(specs, size)})
WantMax(specs, size) == SetMax({Hi(specs[j], size) : j \in SatIdx(specs, size)})
Interval(w, specs, size) ==
  /\ SatIdx(specs, size) # {}
  /\ Cardinality(w) = WantMax(specs, size) - WantMin(specs, size) + 1

Mode(specs, size) ==
  IF specs = <<>> \/ \E j \in 1..Len(specs) : ~ValidSpec(specs[j]) THEN "ignore"
  ELSE IF SatIdx(specs, size) = {} THEN "unsat"      \* i.e. Want(specs, size) = {}
  ELSE IF Len(specs) = 1 THEN "single"
  ELSE "multi"

-----------------------------------------------------------------------------
P0 == [size |-> 0, n |-> -1, specs |-> <<>>, status |-> -1, crk |-> "none", crf |-> -1, crl |-> -1,
       crt |-> -1, clen |-> -1, multi |-> FALSE, cov |-> {}, nparts |-> 0, seen |-> FALSE]

FailResp(P, ln) ==
  LET m  == Mode(P.specs, P.size)
      st == ln.a
  IN IF P.n = -1 \/ Len(P.specs) # P.n THEN "C16.internal_error"      \* broken log
     ELSE IF st = 0 THEN "C16.no_response"
     ELSE IF st >= 500 \/ st < 200 THEN "C16.internal_error"
     ELSE IF m = "ignore" /\ st # 200 THEN "C16.range_status"
     ELSE IF m = "unsat" /\ st \notin {416, 200} THEN "C16.range_status"
     ELSE IF m = "single" /\ st # 206 THEN "C16.range_status"
     ELSE IF m = "multi" /\ st \notin {206, 200, 416} THEN "C16.range_status"
     ELSE IF st = 416 /\ ln.s \notin {"none", "star"} THEN "C16.range_header"
     ELSE IF st = 416 /\ ln.s = "star" /\ ln.d # P.size THEN "C16.range_header"
     ELSE ""

FailBody(P, ln) ==
  LET w == Want(P.specs, P.size) IN
  IF P.status = 200 THEN
       IF ~(ln.s = "slice" /\ ln.a = 0 /\ ln.b = P.size) THEN "C16.range_bytes"
       ELSE IF P.clen \notin {-1, P.size} THEN "C16.range_header"
       ELSE ""
  ELSE IF P.status = 206 THEN
       IF ln.s = "multipart" THEN
            (IF Mode(P.specs, P.size) # "multi" THEN "C16.range_status" ELSE "")
       ELSE IF ln.s # "slice" THEN "C16.range_bytes"
       ELSE IF ~Interval(w, P.specs, P.size) THEN "C16.range_bytes"
       ELSE IF ~(ln.b = Cardinality(w) /\ ln.a = WantMin(P.specs, P.size)) THEN "C16.range_bytes"
       ELSE IF ~(P.crk = "range" /\ P.crf = WantMin(P.specs, P.size) /\ P.crl = WantMax(P.specs, P.size)
                 /\ P.crt = P.size) THEN "C16.range_header"
       ELSE IF P.clen \notin {-1, ln.b} THEN "C16.range_header"
       ELSE ""
  ELSE ""

FailPart(P, ln) ==
  LET w == Want(P.specs, P.size) IN
  IF ~P.multi THEN "C16.range_bytes"
  ELSE IF ln.s # "range" THEN "C16.range_header"
  ELSE IF ~(ln.c = P.size /\ 0 <= ln.a /\ ln.a <= ln.b /\ ln.b <= P.size - 1) THEN "C16.range_header"
  ELSE IF ~(ln.d = ln.a /\ ln.e = ln.b - ln.a + 1) THEN "C16.range_bytes"
  ELSE IF ~((ln.a .. ln.b) \subseteq w) THEN "C16.range_bytes"
  ELSE ""

FailEnd(P, ln) ==
  IF P.status = -1 THEN "C16.no_response"
  ELSE IF P.status >= 200 /\ P.status < 300 /\ ~P.seen THEN "C16.range_bytes"   \* a 2xx whose body was not logged
  ELSE IF P.multi /\ (P.nparts = 0 \/ P.cov # Want(P.specs, P.size)) THEN "C16.range_bytes"
  ELSE ""

Fail(P, ln) ==
  CASE ln.k = "resp" -> FailResp(P, ln)
    [] ln.k = "body" -> FailBody(P, ln)
    [] ln.k = "part" -> FailPart(P, ln)
    [] ln.k = "end"  -> FailEnd(P, ln)
    [] OTHER -> ""

Apply(P, ln) ==
  CASE ln.k = "req"  -> [P0 EXCEPT !.size = ln.a, !.n = ln.b]
    [] ln.k = "spec" -> [P EXCEPT !.specs = Append(@, Spc(ln.s, ln.a, ln.b))]
    [] ln.k = "resp" -> [P EXCEPT !.status = ln.a, !.crk = ln.s, !.crf = ln.b, !.crl = ln.c,
                                  !.crt = ln.d, !.clen = ln.e]
    [] ln.k = "body" -> [P EXCEPT !.multi = (ln.s = "multipart"), !.seen = TRUE]
    [] ln.k = "part" -> [P EXCEPT !.nparts = @ + 1,
                                  !.cov = @ \cup (IF ln.s = "range" /\ 0 <= ln.a THEN ln.a .. Min2(ln.b, P.size) ELSE {})]
    [] OTHER -> P

RECURSIVE Run(_, _, _)
Run(P, lines, badSoFar) ==
  IF lines = <<>> THEN <<P, badSoFar>>
  ELSE LET ln == Head(lines)
           f  == IF badSoFar = "" THEN Fail(P, ln) ELSE badSoFar
       IN Run(Apply(P, ln), Tail(lines), f)
=============================================================================
