SPECIFICATION Spec
CONSTANTS
  Sides = {"client"}
  Plans <- PlansPinned
  Defects = {"lastchunk"}
INVARIANT TypeOK
INVARIANT Conforms
VIEW View
CHECK_DEADLOCK FALSE
