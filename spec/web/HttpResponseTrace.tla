------------------------ MODULE HttpResponseTrace ------------------------
(* C15 - trace specification: judges the exchanges recorded from the real
   circuits.web pipeline (HTTP + Dispatcher + handler over the socket double)
   with the monitor of HttpResponseOps - the same operators the generative
   model HttpResponse.tla is checked against.  One initial state per trace
   (= one connection), one step per line, total verdict: the first failing
   clause is kept in `bad`/`badline` and consumption goes on.               *)
EXTENDS HttpResponseOps, Json, IOUtils, TLC

Traces == JsonDeserialize(IOEnv.TRACE_FILE)

VARIABLES tid, l, P, bad, badline
vars == <<tid, l, P, bad, badline>>

Init == /\ tid \in 1..Len(Traces) /\ l = 1 /\ P = P0 /\ bad = "" /\ badline = 0

Next == /\ l <= Len(Traces[tid])
        /\ LET ln == Traces[tid][l]
               f  == Fail(P, ln)
           IN /\ bad' = IF bad = "" THEN f ELSE bad
              /\ badline' = IF bad = "" /\ f # "" THEN l ELSE badline
              /\ P' = Apply(P, ln)
        /\ l' = l + 1
        /\ UNCHANGED tid

Spec == Init /\ [][Next]_vars

(* reported once per trace, when its last line has been consumed *)
Report == (l = Len(Traces[tid]) + 1) => PrintT(<<"VERDICT", tid, bad, badline>>)
=============================================================================
