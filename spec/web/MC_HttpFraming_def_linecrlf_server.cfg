SPECIFICATION Spec
CONSTANTS
  Sides = {"server"}
  Plans <- PlansPinned
  Defects = {"linecrlf"}
INVARIANT TypeOK
INVARIANT Conforms
VIEW View
CHECK_DEADLOCK FALSE
