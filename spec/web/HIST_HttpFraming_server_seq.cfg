SPECIFICATION Spec
CONSTANTS
  Side = "server"
  Pool <- Two
  MaxMsgs = 2
  MaxCuts = 2
  Mode = "bnd"
  Defects <- AllDefects
  KeepOut = FALSE
INVARIANT TypeOK
CHECK_DEADLOCK FALSE
