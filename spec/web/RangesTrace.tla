-------------------------- MODULE RangesTrace --------------------------
(* C16 (byte-range half) - trace specification: judges the Range exchanges
   recorded from the real serve_file / get_ranges (through Static, behind the
   real HTTP component or handed the request directly) with the monitor of
   RangesOps, the same operators the generative model Ranges.tla is checked
   against.  One initial state per trace; one step per line; total verdict.  *)
EXTENDS RangesOps, Json, IOUtils, TLC

Traces == JsonDeserialize(IOEnv.TRACE_FILE)

VARIABLES tid, l, P, bad, badline
vars == <<tid, l, P, bad, badline>>

Init == /\ tid \in 1..Len(Traces) /\ l = 1 /\ P = P0 /\ bad = "" /\ badline = 0

Next == /\ l <= Len(Traces[tid])
        /\ LET ln == Traces[tid][l]
               f  == Fail(P, ln)
           IN /\ bad' = IF bad = "" THEN f ELSE bad
              /\ badline' = IF bad = "" /\ f # "" THEN l ELSE badline
              /\ P' = Apply(P, ln)
        /\ l' = l + 1
        /\ UNCHANGED tid

Spec == Init /\ [][Next]_vars

(* reported once per trace, when its last line has been consumed *)
Report == (l = Len(Traces[tid]) + 1) => PrintT(<<"VERDICT", tid, bad, badline>>)
=============================================================================
