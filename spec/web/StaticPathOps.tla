--------------------------- MODULE StaticPathOps ---------------------------
(* C16 (containment half) - the property, as a monitor over trace lines.

   A request path is  mount ++ "/" ++ t1 "/" t2 "/" ... "/" tn  where every
   t_i is a token.  Tokens (name in traces -> spelling on the wire):
     "dd"   ..            "d"    .             "e"    (empty segment)
     "dir"  sub           "file" f.txt         "miss" nope
     "e1"   %2e%2e        once percent-encoded ".."
     "e2"   %252e%252e    doubly encoded "..": ONE level of decoding gives the
                          literal name %2e%2e, which does not exist
     "es"   ..%2f..       encoded "/": one level of decoding gives "../.."
     "bs"   ..\           backslash form: a literal (non-existent) name on POSIX
     "sib"  www_evil      the sibling directory whose name extends the root's
     "sec"  secret.txt    the secret file of the parent directory
   Exotic tokens (segments that cannot name anything: after ONE level of decoding
   they contain a NUL byte, an invalid UTF-8 escape, or are too long for a file
   name; every os.* call on them either says "no such file" or raises):
     "n0"   %00           a NUL alone
     "fn"   f.txt%00      NUL at the end of an existing name (truncation attack)
     "nf"   f%00.txt      NUL inside a name
     "dn"   ..%00         NUL next to "..": a literal name, NOT the parent
     "xff"  %ff           not UTF-8: unquote() yields U+FFFD, a literal name
     "long" aaa...a (300) longer than NAME_MAX: stat() fails with ENAMETOOLONG
     "ap"   %2F<abs>      an encoded slash followed by the ABSOLUTE path <abs> of the
                          root's parent directory G/p (real slashes inside): one
                          level of decoding gives "/<abs>", i.e. an empty segment
                          and the components of <abs> as names below the root -
                          they exist nowhere there.  (os.path.join(docroot, "/x")
                          is "/x": a dispatcher that joins after decoding leaves
                          the root.)
     "apf"  the same with every slash of <abs> written %2f
     "ap5"  %5C<abs>      backslash instead: a literal name on POSIX

   Abstract file system (positions are name sequences below the directory G
   that the driver creates; `above` counts levels above G):
        G            dir  list_gp      G/f.txt            file gp_f
        G/p          dir  list_parent  G/p/f.txt          file parent_f
                                       G/p/secret.txt     file secret
        G/p/www      dir  list_root    G/p/www/f.txt      file root_f     <- document root
        G/p/www/sub  dir  list_sub     G/p/www/sub/f.txt  file sub_f
        G/p/www_evil dir  list_evil    G/p/www_evil/f.txt file evil_f
        one level above G: dir list_top; further up: directories of the host
        (body id "other"); no token names anything that exists above G.

   Trace (two lines, the same keys on both):
     k="req"   mount, fe ("http" | "direct"), n, t1..t6 (token names, "" when absent)
     k="resp"  status (0 = nothing was written), body = id of what the response
               body is (a file id, a listing id, "empty", "other"), leak = a
               marker planted outside the root occurs somewhere in the response.

   Resolve = one level of percent-decoding, then a lexical dot-segment walk
   from the root.  Two readings of "the normalised path" are accepted for a 2xx
   answer: the file-system reading (".." may leave the root: then nothing may
   be served) and the URL reading (RFC 3986 remove_dot_segments: ".." at the
   root stays at the root).  Refusal (3xx/4xx) is allowed for every path except
   a canonical path (plain existing names only) that denotes a file.          *)
EXTENDS Integers, Sequences, FiniteSets

BaseTokens   == {"dd", "d", "e", "dir", "file", "miss", "e1", "e2", "es", "bs", "sib", "sec"}
ExoticTokens == {"n0", "fn", "nf", "dn", "xff", "long", "ap", "apf", "ap5"}
AbsTokens    == {"ap", "apf"}
Tokens == BaseTokens \cup ExoticTokens

(* literal names that carry a NUL after decoding *)
NulNames == {"lit_nul", "lit_f.txt_nul", "lit_f_nul_.txt", "lit_.._nul"}

(* one level of percent-decoding, re-split on "/" *)
Decode1(t) ==
  CASE t = "dd"   -> <<"..">>
    [] t = "d"    -> <<".">>
    [] t = "e"    -> <<"">>
    [] t = "dir"  -> <<"sub">>
    [] t = "file" -> <<"f.txt">>
    [] t = "miss" -> <<"nope">>
    [] t = "e1"   -> <<"..">>
    [] t = "e2"   -> <<"lit_%2e%2e">>
    [] t = "es"   -> <<"..", "..">>
    [] t = "bs"   -> <<"lit_..bs">>
    [] t = "sib"  -> <<"www_evil">>
    [] t = "sec"  -> <<"secret.txt">>
    [] t = "n0"   -> <<"lit_nul">>
    [] t = "fn"   -> <<"lit_f.txt_nul">>
    [] t = "nf"   -> <<"lit_f_nul_.txt">>
    [] t = "dn"   -> <<"lit_.._nul">>
    [] t = "xff"  -> <<"lit_fffd">>
    [] t = "long" -> <<"lit_long">>
    [] t \in {"ap", "apf"} -> <<"", "lit_a1", "lit_a2", "lit_a3", "lit_a4", "lit_a5">>
    [] t = "ap5"  -> <<"lit_bs_a1", "lit_a2", "lit_a3", "lit_a4", "lit_a5">>
    [] OTHER      -> <<"lit_unknown">>

RECURSIVE Segs(_)
Segs(toks) == IF toks = <<>> THEN <<>> ELSE Decode1(Head(toks)) \o Segs(Tail(toks))

RootPos == [above |-> 0, names |-> <<"p", "www">>]

Front(s) == SubSeq(s, 1, Len(s) - 1)

StepSeg(pos, seg, clamp) ==
  IF seg = "." \/ seg = "" THEN pos
  ELSE IF seg = ".." THEN
         IF clamp /\ pos = RootPos THEN pos
         ELSE IF pos.names = <<>> THEN [pos EXCEPT !.above = @ + 1]
         ELSE [pos EXCEPT !.names = Front(@)]
  ELSE [pos EXCEPT !.names = Append(@, seg)]

RECURSIVE WalkFrom(_, _, _)
WalkFrom(pos, segs, clamp) ==
  IF segs = <<>> THEN pos ELSE WalkFrom(StepSeg(pos, Head(segs), clamp), Tail(segs), clamp)

FsWalk(toks)  == WalkFrom(RootPos, Segs(toks), FALSE)   \* file-system reading
UrlWalk(toks) == WalkFrom(RootPos, Segs(toks), TRUE)    \* RFC 3986 reading

Node(kind, id) == [kind |-> kind, id |-> id]
Missing == Node("missing", "")

FS(pos) ==
  IF pos.above = 1 /\ pos.names = <<>> THEN Node("dir", "list_top")
  ELSE IF pos.above > 0 THEN (IF pos.names = <<>> THEN Node("dir", "other") ELSE Missing)
  ELSE CASE pos.names = <<>>                        -> Node("dir", "list_gp")
         [] pos.names = <<"f.txt">>                 -> Node("file", "gp_f")
         [] pos.names = <<"p">>                     -> Node("dir", "list_parent")
         [] pos.names = <<"p", "f.txt">>            -> Node("file", "parent_f")
         [] pos.names = <<"p", "secret.txt">>       -> Node("file", "secret")
         [] pos.names = <<"p", "www">>              -> Node("dir", "list_root")
         [] pos.names = <<"p", "www", "f.txt">>     -> Node("file", "root_f")
         [] pos.names = <<"p", "www", "sub">>       -> Node("dir", "list_sub")
         [] pos.names = <<"p", "www", "sub", "f.txt">> -> Node("file", "sub_f")
         [] pos.names = <<"p", "www_evil">>         -> Node("dir", "list_evil")
         [] pos.names = <<"p", "www_evil", "f.txt">> -> Node("file", "evil_f")
         [] OTHER -> Missing

Inside(pos) == pos.above = 0 /\ Len(pos.names) >= 2 /\ pos.names[1] = "p" /\ pos.names[2] = "www"

(* where the file-system walk ends: for witnesses and the model's variants *)
Region(pos) ==
  IF Inside(pos) THEN "inside"
  ELSE IF pos.above = 0 /\ Len(pos.names) >= 2 /\ pos.names[1] = "p" /\ pos.names[2] = "www_evil" THEN "sibling"
  ELSE IF pos.above = 0 /\ Len(pos.names) >= 1 /\ pos.names[1] = "p" THEN "parent"
  ELSE "above"

InsideBodies  == {"root_f", "sub_f", "list_root", "list_sub"}
OutsideBodies == {"gp_f", "parent_f", "secret", "evil_f", "list_gp", "list_parent", "list_evil", "list_top"}

(* what a 2xx answer may carry *)
AllowedBodies(toks) ==
  {FS(c).id : c \in {c \in {FsWalk(toks), UrlWalk(toks)} : Inside(c) /\ FS(c).kind # "missing"}}

(* a canonical path: plain existing names only, denoting a file *)
Canonical(toks) ==
  /\ toks # <<>>
  /\ \A i \in 1..Len(toks) : toks[i] \in {"dir", "file"}
  /\ FS(FsWalk(toks)).kind = "file"

-----------------------------------------------------------------------------
P0 == [have |-> FALSE, toks |-> <<>>]

ReqLine(mount, fe, toks) ==
  LET t(i) == IF i <= Len(toks) THEN toks[i] ELSE "" IN
  [k |-> "req", mount |-> mount, fe |-> fe, n |-> Len(toks),
   t1 |-> t(1), t2 |-> t(2), t3 |-> t(3), t4 |-> t(4), t5 |-> t(5), t6 |-> t(6),
   status |-> 0, body |-> "", leak |-> FALSE]

RespLine(status, body, leak) ==
  [k |-> "resp", mount |-> "", fe |-> "", n |-> 0,
   t1 |-> "", t2 |-> "", t3 |-> "", t4 |-> "", t5 |-> "", t6 |-> "",
   status |-> status, body |-> body, leak |-> leak]

LineToks(ln) == SubSeq(<<ln.t1, ln.t2, ln.t3, ln.t4, ln.t5, ln.t6>>, 1, ln.n)

Fail(P, ln) ==
  IF ln.k # "resp" THEN ""
  ELSE IF ~P.have THEN "C16.internal_error"          \* a response to nothing: the log is broken
  ELSE IF ln.status = 0 THEN "C16.no_response"
  ELSE IF ln.status >= 500 \/ ln.status < 200 THEN "C16.internal_error"
  ELSE IF ln.status < 300 THEN
         IF ln.body \in AllowedBodies(P.toks) THEN (IF ln.leak THEN "C16.leak" ELSE "")
         ELSE IF ln.body \in OutsideBodies THEN "C16.outside_root"
         ELSE IF ln.body \in InsideBodies THEN "C16.wrong_file"
         ELSE IF ~Inside(FsWalk(P.toks)) THEN "C16.outside_root"
         ELSE "C16.wrong_file"
  ELSE IF ln.leak THEN "C16.leak"
  ELSE IF Canonical(P.toks) THEN "C16.canonical_unserved"
  ELSE ""

Apply(P, ln) ==
  IF ln.k = "req" THEN [have |-> TRUE, toks |-> LineToks(ln)]
  ELSE IF ln.k = "resp" THEN [P EXCEPT !.have = FALSE]
  ELSE P

RECURSIVE Run(_, _, _)
Run(P, lines, badSoFar) ==
  IF lines = <<>> THEN <<P, badSoFar>>
  ELSE LET ln == Head(lines)
           f  == IF badSoFar = "" THEN Fail(P, ln) ELSE badSoFar
       IN Run(Apply(P, ln), Tail(lines), f)
=============================================================================
