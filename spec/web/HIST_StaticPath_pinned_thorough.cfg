SPECIFICATION Spec
CONSTANTS
  MaxLen = 4
  Mounts = {"/", "/static"}
  FrontEnds = {"http", "direct"}
  Containment = "parent"
  TargetParse = "urlsplit"
INVARIANT TypeOK

CHECK_DEADLOCK FALSE
