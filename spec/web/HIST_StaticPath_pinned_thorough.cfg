SPECIFICATION Spec
CONSTANTS
  MaxLen = 4
  Mounts = {"/", "/static"}
  FrontEnds = {"http", "direct"}
  Containment = "parent"
  TargetParse = "urlsplit"
  Probe = "stat"
  Exotic = {"n0", "fn", "nf", "dn", "xff", "long", "ap", "apf", "ap5"}
  ExoticMaxLen = 3
INVARIANT TypeOK

CHECK_DEADLOCK FALSE
