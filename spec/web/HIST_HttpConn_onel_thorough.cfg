SPECIFICATION Spec
CONSTANTS
  NConn = 1
  MaxIn = 3
  MaxSteps = 6
  Classes = {"GoodKA", "BadLine", "BadHeader", "BadCL", "TlsHello", "TlsCut", "Truncate"}
  Racing = FALSE
  Linger = TRUE
  DefectSets = {{}, {"echo505", "cookieecho"}}
INVARIANT TypeOK
CHECK_DEADLOCK FALSE
