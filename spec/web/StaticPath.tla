----------------------------- MODULE StaticPath -----------------------------
(* C16 (containment half) - generative model: the environment chooses a mount
   point, a front end and a token sequence; the system answers the way
   circuits.web answers, shaped like the code:

     front end "http"   circuits/web/parsers/http.py splits the request target,
                        circuits/web/http.py:296 redirects (301) unless the path
                        equals its sanitised form (URL.abspath + escape);
     front end "direct" the `request` event reaches Static with the raw path;
     Static._on_request strip the mount, strip("/"), unquote ONCE, join with
                        the document root, abspath (lexical), exists?,
                        containment test, file -> serve_file, dir -> listing.

   Every exchange emits the two trace lines of StaticPathOps and runs them
   through the C16 monitor; Conforms says the monitor never flags the model.

   Variants (generators, never oracles):
     Containment = "root"    location is the root or below it (intended);
                 = "parent"  the pinned test: string prefix against
                             dirname(docroot), i.e. everything below the
                             PARENT of the root passes;
                 = "normpath" seeded C16-8: normpath() of the relative path,
                             refusal when its first component is "..", then
                             join with the docroot: an ABSOLUTE decoded path
                             ("/%2F<abs>") is never refused;
     Probe       = "exists"  os.path.exists/isfile/isdir (intended: a name that
                             cannot exist is simply not found);
                 = "stat"    one os.stat() in try/except OSError: a NUL in the
                             location raises ValueError -> 500;
     TargetParse = "origin"  the request target is an absolute path (RFC 7230
                             5.3.1): "//x/y" has the path "//x/y";
                 = "urlsplit" the pinned parser: urlsplit() reads "//x/y" as a
                             network-path reference, host "x", path "/y".     *)
EXTENDS StaticPathOps, TLC

CONSTANTS MaxLen,       \* longest token sequence
          Mounts,       \* subset of {"/", "/static"}
          FrontEnds,    \* subset of {"http", "direct"}
          Containment,  \* "root" | "parent"
          TargetParse,  \* "origin" | "urlsplit"
          Probe,        \* "exists" | "stat"
          Exotic,       \* the exotic tokens in play (subset of ExoticTokens)
          ExoticMaxLen  \* a sequence with an exotic token has one of them and at most this length

VARIABLES phase,   \* "build" | "done"
          P, bad,  \* monitor state, first failed clause
          hist,    \* <<mount, fe, toks>>: what the replay drives
          out      \* emitted lines

vars == <<phase, P, bad, hist, out>>

Emit(lines) == LET r == Run(P, lines, bad) IN P' = r[1] /\ bad' = r[2] /\ out' = out \o lines

-----------------------------------------------------------------------------
(* circuits/web/parsers/http.py: urlsplit() on the request target *)
Parsed(mount, toks) ==
  IF TargetParse = "urlsplit" /\ mount = "/" /\ Len(toks) >= 2 /\ toks[1] = "e"
  THEN [nopath |-> Len(toks) = 2, toks |-> SubSeq(toks, 3, Len(toks))]
  ELSE [nopath |-> FALSE, toks |-> toks]

(* circuits/web/http.py:296-299.  abspath() rewrites "..", "." and inner empty
   segments; escape() = quote(unquote(path)).  The guard lets the request
   through iff  path = sanitised  or  quote(path) = sanitised.                *)
NoDots(toks)       == \A i \in 1..Len(toks) : toks[i] \notin {"dd", "d"}
NoInnerEmpty(toks) == \A i \in 1..Len(toks) : toks[i] = "e" => i = Len(toks)
RawIsEscaped(t)    == t \notin {"bs", "e1", "es", "xff", "ap", "apf"}      \* quote(unquote(t)) = t
QuotedIsEscaped(t) == t \notin {"e2", "e1", "es", "xff", "n0", "fn", "nf", "dn", "ap", "apf", "ap5"}   \* quote(unquote(t)) = quote(t)
GuardPass(toks) ==
  /\ NoDots(toks) /\ NoInnerEmpty(toks)
  /\ \/ \A i \in 1..Len(toks) : RawIsEscaped(toks[i])
     \/ \A i \in 1..Len(toks) : QuotedIsEscaped(toks[i])

Contained(pos, abs) ==
  IF Containment = "root" THEN Inside(pos)
  ELSE IF Containment = "normpath" THEN abs \/ Inside(pos)
  ELSE pos.above = 0 /\ Len(pos.names) >= 1 /\ pos.names[1] = "p"

(* path.strip("/") runs before unquote(): when the first non-empty segment starts
   with an encoded slash, the decoded path is ABSOLUTE and os.path.join(docroot,
   path) discards the docroot: the walk starts at that absolute place, here the
   root's parent G/p.                                                          *)
ParentPos == [above |-> 0, names |-> <<"p">>]
Lead(toks) == IF \E i \in 1..Len(toks) : toks[i] # "e"
              THEN CHOOSE i \in 1..Len(toks) : toks[i] # "e" /\ \A j \in 1..(i - 1) : toks[j] = "e"
              ELSE 0
IsAbs(toks) == Lead(toks) > 0 /\ toks[Lead(toks)] \in AbsTokens
Location(toks) ==
  IF IsAbs(toks) THEN WalkFrom(ParentPos, Segs(SubSeq(toks, Lead(toks) + 1, Len(toks))), FALSE)
  ELSE FsWalk(toks)

(* the location string still carries a NUL after the lexical normalisation *)
HasNul(pos) == \E i \in 1..Len(pos.names) : pos.names[i] \in NulNames

(* circuits/web/dispatchers/static.py: containment, then the file-system probe.
   os.path.exists/isfile/isdir answer False for a name that cannot exist (they
   swallow OSError and ValueError); os.stat() raises ValueError("embedded null
   byte"), which `except OSError` does not catch: the handler dies, 500.       *)
StaticAnswer(toks) ==
  LET pos  == Location(toks)
      node == FS(pos)
  IN IF ~Contained(pos, IsAbs(toks)) THEN <<404, "other">>
     ELSE IF Probe = "stat" /\ HasNul(pos) THEN <<500, "other">>
     ELSE IF node.kind = "missing" THEN <<404, "other">>
     ELSE <<200, node.id>>

Answer(mount, fe, toks) ==
  IF fe = "direct" THEN StaticAnswer(toks)
  ELSE LET pr == Parsed(mount, toks)
       IN IF pr.nopath \/ ~GuardPass(pr.toks) THEN <<301, "other">>
          ELSE StaticAnswer(pr.toks)

(* the environment builds the request: mount and front end at Init, one token
   per step; the exchange may happen after any prefix *)
HasExotic(toks) == \E i \in 1..Len(toks) : toks[i] \in ExoticTokens

AddToken(t) ==
  /\ phase = "build" /\ Len(hist[3]) < MaxLen
  /\ (t \in ExoticTokens) => ~HasExotic(hist[3])
  /\ (t \in ExoticTokens \/ HasExotic(hist[3])) => Len(hist[3]) < ExoticMaxLen
  /\ hist' = [hist EXCEPT ![3] = Append(@, t)]
  /\ UNCHANGED <<phase, P, bad, out>>

Exchange ==
  /\ phase = "build"
  /\ phase' = "done"
  /\ UNCHANGED hist
  /\ LET a == Answer(hist[1], hist[2], hist[3])
     IN Emit(<<ReqLine(hist[1], hist[2], hist[3]), RespLine(a[1], a[2], a[2] \in OutsideBodies)>>)

Init == /\ phase = "build" /\ P = P0 /\ bad = "" /\ out = <<>>
        /\ hist \in {<<m, f, <<>>>> : m \in Mounts, f \in FrontEnds}

Next == (\E t \in BaseTokens \cup Exotic : AddToken(t)) \/ Exchange

Spec == Init /\ [][Next]_vars

-----------------------------------------------------------------------------
TypeOK == phase \in {"build", "done"} /\ bad \in STRING

(* C16 as the monitor's verdict on every exchange of the model *)
Conforms == bad = ""

(* C16 stated directly on the model (independent of the monitor): whatever is
   answered 2xx lies inside the root, and canonical files are served *)
ServedInside ==
  phase = "done" =>
    LET r == out[2] IN
      /\ (r.status >= 200 /\ r.status < 300) => r.body \in InsideBodies
      /\ ~r.leak
CanonicalServed ==
  phase = "done" =>
    (Canonical(hist[3]) => out[2].status = 200 /\ out[2].body = FS(FsWalk(hist[3])).id)
=============================================================================
