SPECIFICATION Spec
CONSTANTS
  NConn = 1
  MaxIn = 3
  MaxSteps = 6
  Classes = {"GoodKA", "GoodClose", "BadLine", "BadHeader", "BadCL", "BadChunk", "BadEscape", "Nul", "TlsHello", "Truncate", "Rest"}
  Racing = TRUE
  DefectSets = {{}, {"keepbuf"}, {"echo505"}, {"keepbuf", "echo505"}}
INVARIANT TypeOK
CHECK_DEADLOCK FALSE
