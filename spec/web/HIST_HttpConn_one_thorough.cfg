SPECIFICATION Spec
CONSTANTS
  NConn = 1
  MaxIn = 3
  MaxSteps = 6
  Classes = {"GoodKA", "GoodClose", "GoodHead", "BadLine", "BadHeader", "BadCL", "BadChunk", "BadEscape", "Nul", "TlsHello", "TlsCut", "Truncate", "Rest"}
  Racing = TRUE
  Linger = FALSE
  DefectSets = {{}, {"echo505", "cookieecho"}}
INVARIANT TypeOK
CHECK_DEADLOCK FALSE
