--------------------------- MODULE HttpConnOps ---------------------------
(* C14 - the property, as a monitor over trace lines.

   "For any byte sequence received on a connection the HTTP component either
   waits for more data, answers with exactly one syntactically valid HTTP
   response (4xx/5xx for malformed or unsupported input, closing the
   connection when the response says so), or simply closes (TLS handshake on
   a plain-text port).  It never dispatches a request event for a message it
   has rejected, the event loop keeps running, and once the connection has
   disconnected no parser, request or response state for it is retained."

   A trace line is a record [k, c, cls, wf, st, pr, sc, a, b]; c is the
   connection (1..3; 0 = could not be attributed):
     k="conn"   the harness opened connection c (a = 1: its transport lingers: after
                the component's close(sock) reads are still delivered until the
                transport fires disconnect(sock), as circuits.net.sockets.Server
                does while its write buffer drains)
     k="in"     the harness delivers a message on c (one read event):
                cls = input class, a = number of bytes,
                wf = "good"     an unmodified well-formed request, complete
                     "hostile"  well-formed by the RFC 7230 grammar but unusual,
                                oversized or not canonical (nothing is claimed
                                about how it must be answered)
                     "mal"      violates the grammar / is not HTTP at all
                     "partial"  a proper prefix of a well-formed request or of a
                                TLS / SSLv2 client hello, delivered where a new
                                message starts: the only outcomes are to wait or
                                to close
                cls = "Rest" delivers the remainder after a "partial" one.
                A message delivered while the previous one on c has got neither
                a dispatch nor a rejection nor a response is a continuation of
                it (the bytes are one message for the component).
                pr = "METHOD target" of the request the message asks for, when that
                is beyond doubt (unmodified base requests, their prefixes and
                remainders), else "";
                wf = "unsup": a request of another major HTTP version;
                wf = "badlen": a request (or just its header block) whose Content-Length
                is not a number, is empty, or has two different values
     k="req"    a `request` event for connection c was dispatched (pr = "METHOD
                target" of the request object handed to the application)
     k="rej"    an `httperror` event for connection c was dispatched
                (st = its status code): the component, the dispatcher or the
                application refuses the message
     k="exc"    an `exception` event was dispatched (a handler raised)
     k="resp"   the bytes written to c contain a(nother) response, as decoded
                by http.client: st = status, pr = "ok" | "garbage" (status line
                / headers do not parse, version token not DIGIT "." DIGIT) | "incomplete" (body shorter than
                announced), sc = it announces that the connection will be
                closed (Connection: close, HTTP/1.0 without keep-alive, or a
                body delimited by the end of the connection), a = the version
                its status line claims (1000 * major + minor; not judged)
     k="close"  the component fired close(sock) for c
     k="disc"   disconnect(sock) for c was delivered to the component
                (a = 1: injected by the harness = the peer hung up;
                 a = 0: fired by the transport after the component's close)
     k="alive"  end of a step: a = 1 iff the pipeline became quiescent, no
                exception left tick() and a probe event fired afterwards was
                dispatched (pr = "" | "livelock" | "escaped" | "noprobe")
     k="tab"    after the step, the component's dict/set attributes hold a
                parser-table entries and b other entries keyed by c's socket.
   The monitor state P maps each connection to a record.  Fail(P, ln) names
   the clause of C14 the line violates ("" if none); Apply(P, ln) is the next
   monitor state.  Both the generative model (HttpConn.tla) and the trace
   specification (HttpConnTrace.tla) use exactly these operators.

   What the monitor deliberately leaves open (the property is silent):
   whether a malformed message is refused at all (a lenient parser may
   dispatch it: then the application's answer is judged like any other
   response); which refusal status is used (any 3xx/4xx/5xx: a non-canonical
   target may be refused with 301); an `exception` event by itself (the
   handler's failure is reported and answered with a 5xx: only the answer is
   judged); closing without an answer for anything but a complete well-formed
   request; waiting, always.                                                *)
EXTENDS Integers, Sequences

ConnIds == 1..3

C0 == [ph     |-> "none",  \* none | idle | recv | disp | rej      (of the current message)
       nresp  |-> 0,       \* responses decoded since the current message began
       sc     |-> FALSE,   \* the last response announced close
       lastst |-> 0,       \* status of the last response
       closed |-> FALSE,   \* the component fired close(sock)
       gone   |-> FALSE,   \* disconnect(sock) was delivered
       peer   |-> FALSE,   \* ... because the peer hung up
       wf     |-> "",      \* well-formedness of the current message
       want   |-> ""]      \* the request the current message asks for ("" = no claim)

P0 == [c \in ConnIds |-> C0]

Line(k, c, cls, wf, st, pr, sc, a, b) ==
  [k |-> k, c |-> c, cls |-> cls, wf |-> wf, st |-> st, pr |-> pr, sc |-> sc, a |-> a, b |-> b]

Known(ln) == ln.c \in ConnIds

(* a response announced close and the close event has not come by the end of
   the step (the peer's own hang-up makes it moot) *)
CloseOwed(S) == S.nresp >= 1 /\ S.sc /\ ~S.closed /\ ~S.gone

Fail(P, ln) ==
  IF ln.k = "alive" THEN
       IF ln.a # 1 THEN "C14.loop_dead"
       ELSE IF \E c \in ConnIds : CloseOwed(P[c]) THEN "C14.close_mismatch"
       ELSE ""
  ELSE IF ~Known(ln) THEN ""
  ELSE LET S == P[ln.c] IN
  CASE ln.k = "req" ->
         IF S.peer THEN ""
         ELSE IF S.ph = "rej" THEN "C14.dispatch_after_reject"
         ELSE IF S.ph = "disp" /\ S.nresp >= 1 /\ S.lastst >= 400 THEN "C14.dispatch_after_reject"
         ELSE IF S.want # "" /\ ln.pr # S.want THEN "C14.wrong_request"
              \* the request event is not for the message that was received (method / target
              \* of an earlier message of the connection)
         ELSE ""
    [] ln.k = "resp" ->
         IF S.peer THEN ""            \* written to a peer that is gone: nobody sees it
         ELSE IF S.ph \in {"none", "idle"} THEN "C14.two_responses"   \* a response to no message at all
         ELSE IF S.nresp >= 1 THEN "C14.two_responses"
         ELSE IF S.wf = "partial" THEN "C14.two_responses"
              \* all that has arrived since the last answer is a proper prefix of a message
              \* (neither complete nor malformed): nothing is there to be answered yet, the
              \* response is one more than there are messages (typically the previous,
              \* already answered message answered again)
         ELSE IF ln.pr # "ok" THEN "C14.invalid_response"
         ELSE IF S.ph \in {"rej", "recv"} /\ S.wf = "mal" /\ ln.st < 300 THEN "C14.invalid_response"
         ELSE IF S.wf \in {"unsup", "badlen"} /\ ln.st < 400 THEN "C14.invalid_response"
              \* unsupported input (another major HTTP version) and a non-numeric / empty /
              \* conflicting Content-Length (the statement names them: the message's framing
              \* is unknown, what follows would be taken for the next request) are to be
              \* refused with 4xx/5xx, however lenient the parser is
         ELSE IF S.wf = "good" /\ S.ph \in {"rej", "recv"} /\ ln.st >= 400 THEN "C14.error_for_wellformed"
              \* 4xx/5xx are for malformed or unsupported input: a complete well-formed request
              \* (in one piece or cut anywhere and completed) that was not even dispatched is
              \* answered with an error
         ELSE ""
    [] ln.k = "close" ->
         IF S.gone THEN ""
         ELSE IF S.nresp >= 1 /\ ~S.sc THEN "C14.close_mismatch"       \* said keep-alive, closed
         ELSE IF S.nresp = 0 /\ S.wf = "good" /\ S.ph \in {"recv", "disp", "rej"}
              THEN "C14.close_mismatch"                                  \* closed instead of answering
         ELSE ""
    [] ln.k = "tab" ->
         IF S.gone /\ ln.a + ln.b > 0 THEN "C14.residue" ELSE ""
    [] OTHER -> ""

Apply(P, ln) ==
  IF ~Known(ln) THEN P
  ELSE LET S == P[ln.c] IN
  CASE ln.k = "conn" -> [P EXCEPT ![ln.c] = [C0 EXCEPT !.ph = "idle"]]
    [] ln.k = "in" ->
         IF S.ph = "recv" /\ S.nresp = 0
         THEN \* continuation of a message that is still being received
              \* (a Rest completes the prefix it belongs to: then the whole is a good message)
              LET whole == ln.cls = "Rest" /\ S.wf = "partial" /\ ln.pr = S.want
              IN [P EXCEPT ![ln.c].wf = IF whole THEN "good" ELSE "hostile",
                           ![ln.c].want = IF whole THEN S.want ELSE ""]
         ELSE \* a new message; the tail of a request delivered where a message starts is just bytes
              [P EXCEPT ![ln.c].ph = "recv", ![ln.c].nresp = 0, ![ln.c].sc = FALSE, ![ln.c].lastst = 0,
                        ![ln.c].wf = IF ln.cls = "Rest" THEN "hostile" ELSE ln.wf,
                        ![ln.c].want = IF ln.cls = "Rest" THEN "" ELSE ln.pr]
    [] ln.k = "req" -> IF S.ph = "recv" THEN [P EXCEPT ![ln.c].ph = "disp"] ELSE P
    [] ln.k = "rej" -> IF S.ph = "recv" THEN [P EXCEPT ![ln.c].ph = "rej"] ELSE P
    [] ln.k = "resp" -> [P EXCEPT ![ln.c].nresp = @ + 1, ![ln.c].sc = ln.sc, ![ln.c].lastst = ln.st]
    [] ln.k = "close" -> [P EXCEPT ![ln.c].closed = TRUE]
    [] ln.k = "disc" -> [P EXCEPT ![ln.c].gone = TRUE, ![ln.c].peer = @ \/ (ln.a = 1 /\ ~S.gone)]
    [] OTHER -> P

(* Fold a sequence of lines through the monitor: <<P', firstBad>> *)
RECURSIVE Run(_, _, _)
Run(P, lines, badSoFar) ==
  IF lines = <<>> THEN <<P, badSoFar>>
  ELSE LET ln == Head(lines)
           f  == IF badSoFar = "" THEN Fail(P, ln) ELSE badSoFar
       IN Run(Apply(P, ln), Tail(lines), f)
=============================================================================
