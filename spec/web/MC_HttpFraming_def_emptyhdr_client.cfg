SPECIFICATION Spec
CONSTANTS
  Sides = {"client"}
  Plans <- PlansPinned
  Defects = {"emptyhdr"}
INVARIANT TypeOK
INVARIANT Conforms
VIEW View
CHECK_DEADLOCK FALSE
