----------------------------- MODULE HttpFraming -----------------------------
(* C13 - generative model of HTTP message framing over a segmented stream:
   circuits.web.parsers.http.HttpParser.execute (first line -> headers -> body
   state machine over carried-over bytes) as driven by
   circuits.web.http.HTTP._on_read (server side: one `request` event per
   message, deferred until the message is complete) and by
   circuits.protocols.http.HTTP._on_client_read (client side: one `response`
   event per message).

   It works on *layouts* (HttpFramingOps): the peer picks the messages of one
   connection from a grammar (Init: side, plan, a sequence of <= plan.maxmsgs
   grammar indices, every message but the last one keeping the connection
   alive), then the environment cuts each message into reads (Read(b): the
   next read event carries the bytes [pos, b) of the current message; the next
   message starts only after the previous one was answered: no pipelining -
   NextMsg) and, for a
   read-until-close response, closes the connection (PeerClose).  The system
   part is shaped like the code: one pass of the parser's loop per read over
   the carried-over bytes plus the new ones (operator Exec: phase "line" ->
   "hdr" -> "body"), an event when the message is complete.  Every step emits
   the trace lines the instrumented real component emits; the C13 monitor of
   HttpFramingOps judges them (invariant Conforms); the clauses of C13 are
   also stated directly on the state (EmitAtEnd, EmitOnce, NoSpuriousError,
   DeliveredIsEmitted).

   Defects = {} is the intended algorithm.  The pinned code deviates in seven
   places, each a generator of counterexample histories (never an oracle):
     "linecrlf"   looks for the CRLF that ends the first line only in the
                  bytes of the current read, not in the carried-over buffer:
                  a read boundary between that CR and LF makes it take a later
                  CRLF (bad first line: the server answers 400, the client
                  parser gives up silently) or none at all
     "lastchunk"  declares a chunked message complete as soon as the size line
                  "0" CRLF of the last chunk has arrived, not after the
                  trailers and the final CRLF; the bytes that follow are taken
                  for the start of the next message
     "nobody"     (client) a 204 response that has header fields is never
                  complete (only an empty header block ends a 204)
     "nobody304"  (client) a 304 response is never complete
     "untilclose" (client) a response delimited by the closing of the
                  connection is never reported (nothing listens to the close)
     "emptyhdr"   an empty header block followed by body bytes is recognised
                  only if a read ends exactly behind it (then the parser
                  crashes on the first body bytes), otherwise never
     "tecase"     (server) HTTP._on_read decides by itself whether a body is
                  to be awaited and compares the Transfer-Encoding value with
                  "chunked" case-sensitively (the parser lower-cases it): a
                  request with `Transfer-Encoding: Chunked` is dispatched as
                  soon as its header block is complete, with the part of the
                  body that happens to have arrived
   (the first six were repaired in the repository while this check was built;
   the framing decision of the intended algorithm is a function of the
   *normalised* header fields: `body` of the layout)                         *)
EXTENDS HttpFramingOps, Naturals, FiniteSets, TLC

CONSTANTS Sides,     \* subset of {"server", "client"}: requests / responses are parsed
          Plans,     \* set of enumeration plans (records, see below); a behaviour follows one of them
          Defects    \* subset of {"linecrlf", "lastchunk", "nobody", "nobody304", "untilclose", "emptyhdr", "tecase"}

(* A plan bounds what the environment does on one connection:
     [name, pool, maxmsgs, maxcuts, mode, keep]
   pool     "Everything" | "Selected" | "Few" | "Two" | "One": the layouts the peer may send
   maxmsgs  messages on the connection
   maxcuts  reads that end before the end of their message, over the
            connection (NoBound: any number)
   mode     where such a read may end: "all" offsets | structural boundaries
            "pm2" (+-2) | "pm1" (+-1) | "bnd" (+-0) | "key" (inside the first
            line's CRLF, inside / behind the header terminator, behind the last
            chunk's size line, behind the first / before the last byte) |
            "bytes" (every read is one byte) | "bytesrest" (single bytes, then
            the rest in one read)
   keep     keep every emitted line in `out` (small plans only)               *)
NoBound == -1
NoDefects == {}
AllDefects == {"linecrlf", "lastchunk", "nobody", "nobody304", "untilclose", "emptyhdr", "tecase"}

-----------------------------------------------------------------------------
(* the grammar.  Tags tell the harness which bytes realise the layout
   (harness/drivers/c13_realize.py holds the same tables and checks that the
   lengths agree); the numbers are what the model works with.               *)
ReqLineTag == <<"short", "long", "shortq", "longq">>
ReqLineLen == <<14, 22, 18, 30>>      \* "GET / HTTP/1.1", "POST /abc/def HTTP/1.1", "GET /?a=1 HTTP/1.1", "POST /abc/def?x=1&y=2 HTTP/1.1"
ReqHdrTag  == <<"none", "host", "several", "cont", "hostka">>
ReqHdrLens == << <<>>,                \* (HTTP/1.0 only)
                 <<17>>,              \* Host: example.org
                 <<17, 11, 8, 8>>,    \* Host, Accept: */*, X-Tag: a, X-Tag: b
                 <<17, 16, 9>>,       \* Host, X-Long: part one, <SP>part two   (continuation line)
                 <<17, 22>> >>        \* Host, Connection: keep-alive
RespLineTag == <<"200", "404", "204", "304">>
RespLineLen == <<15, 22, 23, 25>>     \* "HTTP/1.1 200 OK", "... 404 Not Found", "... 204 No Content", "... 304 Not Modified"
RespStatus  == <<200, 404, 204, 304>>
RespHdrTag  == <<"none", "server", "several", "cont">>
RespHdrLens == << <<>>,
                  <<13>>,             \* Server: x/1.0
                  <<13, 24, 8, 8>>,   \* Server, Content-Type: text/plain, X-Tag: a, X-Tag: b
                  <<13, 16, 9>> >>    \* Server, X-Long: part one, <SP>part two
BodyTag  == <<"none", "cl0", "cl5", "ch3", "ch32x", "ch3t", "ch32xt", "close5", "close0">>
BodyKind == <<"none", "cl", "cl", "chunked", "chunked", "chunked", "chunked", "close", "close">>
BodyCl   == <<0, 0, 5, 0, 0, 0, 0, 5, 0>>
BodyHdr  == << <<>>, <<17>>, <<17>>, <<26>>, <<26>>, <<26>>, <<26>>, <<>>, <<>> >>   \* Content-Length: n / Transfer-Encoding: chunked
C3  == [sz |-> 3, ext |-> 0]          \* 3 CRLF abc CRLF
C3x == [sz |-> 3, ext |-> 4]          \* 3;x=1 CRLF abc CRLF
C2  == [sz |-> 2, ext |-> 0]
BodyChunks   == << <<>>, <<>>, <<>>, <<C3>>, <<C3x, C2>>, <<C3>>, <<C3x, C2>>, <<>>, <<>> >>
BodyTrailers == << <<>>, <<>>, <<>>, <<>>, <<>>, <<8>>, <<8, 11>>, <<>>, <<>> >>      \* X-Sum: 1 / X-Sum: 1, X-Other: ab

(* spellings that RFC 7230 makes equivalent (field names and the transfer-coding
   / connection-option tokens are case-insensitive, optional whitespace around a
   field value): they do not change `body` / `ka` - the normalised header - but
   the bytes, and "ows" the lengths of the framing and Connection lines (+2)  *)
SpTag == <<"canon",    \* Transfer-Encoding: chunked    Content-Length: 5     Connection: keep-alive
           "lower",    \* transfer-encoding: chunked    content-length: 5     connection: keep-alive   host: / server:
           "upper",    \* TRANSFER-ENCODING: CHUNKED    CONTENT-LENGTH: 5     CONNECTION: KEEP-ALIVE   HOST: / SERVER:
           "mixed",    \* Transfer-Encoding: Chunked    Content-Length: 5     Connection: Keep-Alive
           "ows">>     \* Transfer-Encoding: <HT>chunked<SP>   Content-Length: <HT>5<SP>   Connection: <HT>keep-alive<SP>
Ows(sp) == IF sp = 5 THEN 2 ELSE 0
TeLower(sp) == sp \in {1, 2, 5}        \* the transfer-coding token is spelled "chunked"
BodyHdrS(bi, sp) == IF BodyHdr[bi] = <<>> THEN <<>> ELSE <<BodyHdr[bi][1] + Ows(sp)>>

Mk(kind, li, hi, bi, vi, sp, ltag, htag, linelen, hdrlens, status, ka) ==
  [kind |-> kind, li |-> li, hi |-> hi, bi |-> bi, vi |-> vi, sp |-> sp,
   ltag |-> ltag, htag |-> htag, btag |-> BodyTag[bi], stag |-> SpTag[sp], ver |-> IF vi = 1 THEN 10 ELSE 11,
   status |-> status, ka |-> ka, telower |-> TeLower(sp),
   line |-> linelen, hdrs |-> hdrlens \o BodyHdrS(bi, sp),
   body |-> BodyKind[bi], cl |-> BodyCl[bi], chunks |-> BodyChunks[bi], trailers |-> BodyTrailers[bi]]

(* requests: bodies 1..7; HTTP/1.1 needs Host; the connection is kept alive by
   HTTP/1.1 or by Connection: keep-alive                                      *)
MkReq(li, hi, bi, vi, sp) ==
  Mk("req", li, hi, bi, vi, sp, ReqLineTag[li], ReqHdrTag[hi], ReqLineLen[li],
     IF hi = 5 THEN <<17, 22 + Ows(sp)>> ELSE ReqHdrLens[hi], 0, vi = 2 \/ hi = 5)
ReqAll == [i \in 1..(5 * 4 * 5 * 7 * 2) |->
             LET j == (i - 1) % 280
             IN MkReq((j \div 70) + 1, ((j \div 14) % 5) + 1, ((j \div 2) % 7) + 1, (j % 2) + 1, ((i - 1) \div 280) + 1)]
(* the other spellings only where a header the code consults is present, on the short first line *)
ValidReq(L) == /\ L.vi = 2 => L.hi # 1
               /\ L.sp > 1 => (L.li = 1 /\ (L.bi >= 2 \/ L.hi = 5))
ReqGrammar == SelectSeq(ReqAll, ValidReq)

(* responses: 204/304 have no body; the others have one of bodies 2..9 (a
   chunked body only towards HTTP/1.1); a read-until-close body ends the
   connection                                                                 *)
MkResp(li, hi, bi, vi, sp) ==
  Mk("resp", li, hi, bi, vi, sp, RespLineTag[li], RespHdrTag[hi], RespLineLen[li], RespHdrLens[hi], RespStatus[li],
     BodyKind[bi] # "close")
RespAll == [i \in 1..(5 * 4 * 4 * 9 * 2) |->
              LET j == (i - 1) % 288
              IN MkResp((j \div 72) + 1, ((j \div 18) % 4) + 1, ((j \div 2) % 9) + 1, (j % 2) + 1, ((i - 1) \div 288) + 1)]
ValidResp(L) == /\ (L.li \in {3, 4}) <=> (L.bi = 1)
                /\ (L.body = "chunked") => (L.vi = 2)
                /\ L.sp > 1 => (L.li = 1 /\ L.bi \in 2..7)
RespGrammar == SelectSeq(RespAll, ValidResp)

AllSides == {"server", "client"}
GG == [s \in AllSides |-> IF s = "server" THEN ReqGrammar ELSE RespGrammar]
ASSUME PrintT(<<"GRAMMAR", GG>>)       \* the harness reads the grammar from here

(* the layouts whose every cut sequence is replayed on the real code: every
   body (both versions) with the other dimensions rotating, every first line
   x header block without body, the HTTP/1.0 specials                        *)
SelReq(l) == \/ (l.sp = 1 /\ l.li = (l.bi % 4) + 1 /\ l.hi = 2 + (l.bi % 3))
             \/ (l.sp = 1 /\ l.bi = 1 /\ l.vi = 2)
             \/ (l.sp = 1 /\ l.vi = 1 /\ l.hi \in {1, 5} /\ l.li \in {1, 3} /\ l.bi \in {1, 3})
             \/ (l.sp > 1 /\ l.vi = 2 /\ l.hi = 2 /\ l.bi = 5)                \* every spelling of Transfer-Encoding: chunked [3x, 2]
             \/ (l.sp \in {3, 5} /\ l.vi = 2 /\ l.hi = 2 /\ l.bi = 3)        \* CONTENT-LENGTH / optional whitespace
             \/ (l.sp \in {3, 4} /\ l.vi = 1 /\ l.hi = 5 /\ l.bi = 3)        \* HTTP/1.0 CONNECTION: KEEP-ALIVE / Connection: Keep-Alive
SelResp(l) == \/ (l.sp = 1 /\ l.li = 1 /\ l.hi = 1 + (l.bi % 4) /\ (l.vi = 2 \/ l.body = "close"))
              \/ (l.sp = 1 /\ l.bi = 3 /\ l.vi = 2 /\ l.li \in {1, 2})
              \/ (l.sp = 1 /\ l.li \in {3, 4} /\ l.hi \in {1, 2, 4} /\ (l.vi = 2 \/ l.hi = 2))
              \/ (l.sp = 1 /\ l.hi = 1 /\ l.bi \in {8, 9} /\ l.li = 2)
              \/ (l.sp > 1 /\ l.vi = 2 /\ l.hi = 2 /\ l.bi = 5)                \* every spelling of chunked [3x, 2]
              \/ (l.sp = 5 /\ l.vi = 2 /\ l.hi = 2 /\ l.bi = 3)               \* Content-Length with optional whitespace
(* a handful for the sequences and the deeper cut enumerations *)
FewReq(l) == \/ (l.sp = 1 /\ l.vi = 2 /\ l.li = 1 /\ l.hi = 2 /\ l.bi \in {1, 3, 5})   \* GET none / cl5 / ch32x
             \/ (l.sp = 1 /\ l.vi = 2 /\ l.li = 4 /\ l.hi = 4 /\ l.bi = 7)               \* long, continuation, ch32xt
             \/ (l.sp = 1 /\ l.vi = 1 /\ l.li = 3 /\ l.hi = 5 /\ l.bi \in {1, 2})        \* 1.0 keep-alive none / cl0
             \/ (l.sp = 4 /\ l.vi = 2 /\ l.hi = 2 /\ l.bi = 5)                          \* Transfer-Encoding: Chunked
             \/ (l.sp = 3 /\ l.vi = 1 /\ l.hi = 5 /\ l.bi = 3)                          \* 1.0 CONNECTION: KEEP-ALIVE, CONTENT-LENGTH: 5
FewResp(l) == \/ (l.sp = 1 /\ l.vi = 2 /\ l.li = 1 /\ l.hi = 2 /\ l.bi \in {2, 3, 5, 8}) \* 200 cl0 / cl5 / ch32x / close5
              \/ (l.sp = 1 /\ l.vi = 2 /\ l.li = 3 /\ l.hi \in {1, 2})                   \* 204 without / with header fields
              \/ (l.sp = 1 /\ l.vi = 2 /\ l.li = 2 /\ l.hi = 4 /\ l.bi = 7)              \* 404 continuation ch32xt
              \/ (l.sp = 3 /\ l.vi = 2 /\ l.hi = 2 /\ l.bi = 5)                         \* TRANSFER-ENCODING: CHUNKED
TwoOf(l) == l.sp = 1 /\ l.vi = 2 /\ l.li = 1 /\ l.hi = 2 /\ l.bi \in {3, 6}             \* cl5 / ch3t
OneOf(l) == l.sp = 1 /\ l.vi = 2 /\ l.li = 1 /\ l.hi = 2 /\ l.bi = 6                    \* ch3t
InPool(name, s, l) ==
  CASE name = "Everything" -> TRUE
    [] name = "Selected" -> IF s = "server" THEN SelReq(l) ELSE SelResp(l)
    [] name = "Few" -> IF s = "server" THEN FewReq(l) ELSE FewResp(l)
    [] name = "Two" -> TwoOf(l)
    [] name = "One" -> OneOf(l)
PoolNames == {"Everything", "Selected", "Few", "Two", "One"}
PoolTab == [n \in PoolNames |-> [s \in AllSides |-> {i \in 1..Len(GG[s]) : InPool(n, s, GG[s][i])}]]

Plan(name, pool, maxmsgs, maxcuts, mode, keep) ==
  [name |-> name, pool |-> pool, maxmsgs |-> maxmsgs, maxcuts |-> maxcuts, mode |-> mode, keep |-> keep]
(* exhaustive checking of the intended algorithm (with VIEW) *)
PlansMC == {Plan("bnd", "Selected", 1, NoBound, "bnd", FALSE), Plan("all", "One", 1, NoBound, "all", FALSE),
            Plan("seq", "Two", 2, NoBound, "bnd", FALSE)}
PlansMCThorough == {Plan("all", "Two", 1, NoBound, "all", FALSE),
                    Plan("pm2", "Selected", 1, NoBound, "pm2", FALSE),
                    Plan("grammar", "Everything", 1, NoBound, "bnd", FALSE),
                    Plan("seq", "Few", 3, NoBound, "key", FALSE),
                    Plan("seq2", "Two", 3, NoBound, "bnd", FALSE)}
PlansPinned == {Plan("all", "Selected", 1, NoBound, "all", FALSE)}
(* histories replayed on the real code (no VIEW: every state is a history) *)
PlansHist == {Plan("single", "Selected", 1, 1, "all", TRUE),            \* every single cut offset
              Plan("bytes", "Selected", 1, NoBound, "bytes", FALSE),    \* byte-at-a-time (every prefix of it, then the rest)
              Plan("pair", "Few", 1, 2, "bnd", FALSE),                  \* every pair of cuts at structural boundaries
              Plan("pair1", "Two", 1, 2, "pm1", FALSE),                 \* ... and next to them
              Plan("edge", "Two", 1, 3, "bnd", FALSE),                  \* every (prev, pos) -> (pos, pos') edge over the boundaries
              Plan("seq", "Two", 2, 2, "bnd", FALSE)}                   \* keep-alive sequences
PlansHistThorough == {Plan("single", "Selected", 1, 1, "all", TRUE),
                      Plan("bytes", "Selected", 1, NoBound, "bytes", FALSE),
                      Plan("bytesrest", "Few", 1, NoBound, "bytesrest", FALSE),   \* j single bytes, then the rest in one read
                      Plan("pair", "Selected", 1, 2, "pm2", FALSE),
                      Plan("edge", "Few", 1, 3, "bnd", FALSE),
                      Plan("seq", "Few", 2, 2, "key", FALSE),
                      Plan("seq2", "Two", 3, 2, "key", FALSE),
                      Plan("seq3", "Two", 3, 1, "bnd", FALSE)}

-----------------------------------------------------------------------------
VARIABLES side,     \* the side under test
          plan,     \* the plan this behaviour follows
          msgs,     \* the messages of the connection (grammar indices)
          m,        \* current message
          pos,      \* bytes of message m delivered
          prev,     \* offset of the previous cut (start of the last read)
          ph,       \* parser phase for message m: "line" | "hdr" | "body" | "done" | "stuck" | "crash"
          closed,   \* the peer closed the connection (read-until-close)
          emitted,  \* emitted[i]: events produced for message i
          errors,   \* error responses / parser errors so far
          dead,     \* a defect fired: what the code does next is not predicted
          ncuts,    \* reads that ended before the end of their message
          P, bad,   \* monitor state, first failed clause
          hist,     \* environment history: <<m, offset at which a read ended>>
          pred,     \* predicted events: <<"emit" | "error", m, pos>>
          out       \* every line emitted so far (if plan.keep)

vars == <<side, plan, msgs, m, pos, prev, ph, closed, emitted, errors, dead, ncuts, P, bad, hist, pred, out>>

G == GG[side]
Cfg == [side |-> side, msgs |-> [i \in 1..Len(msgs) |-> G[msgs[i]]]]
Emit(lines) == LET r == Run(Cfg, P, lines, bad)
               IN P' = r[1] /\ bad' = r[2] /\ out' = IF plan.keep THEN out \o lines ELSE out

Init == /\ side \in Sides /\ plan \in Plans
        /\ msgs \in UNION {[1..n -> PoolTab[plan.pool][side]] : n \in 1..plan.maxmsgs}
        /\ \A i \in 1..(Len(msgs) - 1) : G[msgs[i]].ka
        /\ m = 1 /\ pos = 0 /\ prev = 0 /\ ph = "line" /\ closed = FALSE
        /\ emitted = [i \in 1..Len(msgs) |-> 0] /\ errors = 0 /\ dead = FALSE /\ ncuts = 0
        /\ P = P0 /\ bad = "" /\ hist = <<>> /\ pred = <<>> /\ out = <<>>

L == G[msgs[m]]

-----------------------------------------------------------------------------
(* offsets of the CR of every CRLF of a message (body data holds none) *)
RECURSIVE LineCRs(_, _)
LineCRs(s, from) == IF s = <<>> THEN {} ELSE {from + Head(s)} \cup LineCRs(Tail(s), from + Head(s) + 2)
RECURSIVE ChunkCRs(_, _)
ChunkCRs(cs, from) ==
  IF cs = <<>> THEN {}
  ELSE LET c == Head(cs) IN {from + HexDigits(c.sz) + c.ext, from + ChunkLen(c) - 2} \cup ChunkCRs(Tail(cs), from + ChunkLen(c))
CRs(l) == {l.line} \cup LineCRs(l.hdrs, LineEnd(l)) \cup {HdrEnd(l) - 2}
          \cup (IF l.body = "chunked"
                THEN ChunkCRs(l.chunks, HdrEnd(l)) \cup {LastSizeEnd(l) - 2}
                     \cup LineCRs(l.trailers, LastSizeEnd(l)) \cup {Total(l) - 2}
                ELSE {})
Min(S) == CHOOSE x \in S : \A y \in S : x <= y

(* where a read may end before the end of the message: next to the structural
   boundaries, and behind the first / before the last byte *)
Targets(mode, l) ==
  LET B == Boundaries(l) \cup {1, Total(l) - 1}
      W == CASE mode = "pm2" -> {x + d : x \in B, d \in -2..2}
             [] mode = "pm1" -> {x + d : x \in B, d \in -1..1}
             [] mode = "bnd" -> B
             [] mode = "key" -> {1, l.line + 1, HdrEnd(l) - 1, HdrEnd(l), Total(l) - 1}
                                \cup (IF l.body = "chunked" THEN {LastSizeEnd(l)} ELSE {})
             [] OTHER -> 1..Total(l)
  IN {t \in W : t >= 1 /\ t < Total(l)}

(* per-layout tables, computed once (constant level): TLC evaluates the guard
   of Read for every candidate offset of every state                        *)
TabTot == [s \in AllSides |-> [i \in 1..Len(GG[s]) |-> Total(GG[s][i])]]
TabHe  == [s \in AllSides |-> [i \in 1..Len(GG[s]) |-> HdrEnd(GG[s][i])]]
TabLse == [s \in AllSides |-> [i \in 1..Len(GG[s]) |-> LastSizeEnd(GG[s][i])]]
TabCRs == [s \in AllSides |-> [i \in 1..Len(GG[s]) |-> CRs(GG[s][i])]]
UsedModes == {p.mode : p \in Plans}
TabTg  == [md \in UsedModes |-> [s \in Sides |-> [i \in 1..Len(GG[s]) |-> Targets(md, GG[s][i])]]]

GTot == TabTot[side]
GHe  == TabHe[side]
GLse == TabLse[side]
GCRs == TabCRs[side]
I    == msgs[m]
Tot  == GTot[I]

(* the first CRLF that lies entirely within the bytes [a, b) of layout i, -1 if none *)
FirstCRLF(i, a, b) == LET S == {c \in GCRs[i] : c >= a /\ c + 2 <= b} IN IF S = {} THEN -1 ELSE Min(S)

NoBodyStatus(l) == l.status \in {204, 304}

(* One pass of HttpParser.execute + the component's decision, for a read that
   delivered the bytes [a, b) of the message with layout i while the parser
   was in phase p.  Result: [ph, emit, err] - the new phase, whether the event
   is produced now, the error observed now (0 none).                         *)
R(p, e, x) == [ph |-> p, emit |-> e, err |-> x]
RECURSIVE Exec(_, _, _, _)
Exec(i, p, a, b) ==
  LET l == G[i] IN
  CASE p = "line" ->
         LET found == IF "linecrlf" \in Defects THEN FirstCRLF(i, a, b)
                      ELSE IF b >= l.line + 2 THEN l.line ELSE -1
         IN IF found = -1 THEN R("line", FALSE, 0)
            ELSE IF found = l.line THEN Exec(i, "hdr", a, b)
            ELSE R("stuck", FALSE, IF side = "server" THEN 400 ELSE 0)   \* bad first line: 400 / the client parser gives up silently
    [] p = "hdr" ->
         IF b < GHe[i] THEN R("hdr", FALSE, 0)
         ELSE IF "emptyhdr" \in Defects /\ l.hdrs = <<>> /\ GTot[i] > GHe[i]
              THEN IF b = GHe[i] THEN R("crash", FALSE, 0)       \* recognised, but the body counter was never set
                   ELSE R("stuck", FALSE, 0)
         ELSE Exec(i, "body", a, b)
    [] p = "crash" -> R("stuck", FALSE, 2000)                    \* TypeError on the first body bytes
    [] p = "body" ->
         IF side = "client" /\ NoBodyStatus(l)
         THEN IF \/ ("nobody" \in Defects /\ l.status = 204 /\ l.hdrs # <<>>)
                 \/ ("nobody304" \in Defects /\ l.status = 304)
              THEN R("stuck", FALSE, 0)
              ELSE R("done", TRUE, 0)
         ELSE IF l.body = "none" THEN R("done", TRUE, 0)
         ELSE IF l.body = "cl" THEN (IF b >= GTot[i] THEN R("done", TRUE, 0) ELSE R("body", FALSE, 0))
         ELSE IF l.body = "chunked"
              THEN (IF "tecase" \in Defects /\ side = "server" /\ ~l.telower
                    THEN R("done", TRUE, 0)                      \* not recognised as chunked: nothing to wait for
                    ELSE IF b >= (IF "lastchunk" \in Defects THEN GLse[i] ELSE GTot[i])
                    THEN R("done", TRUE, 0) ELSE R("body", FALSE, 0))
         ELSE R("body", FALSE, 0)                                \* "close": ends with PeerClose
    [] OTHER -> R(p, FALSE, 0)                                   \* "done" (left-over bytes), "stuck"

-----------------------------------------------------------------------------
EndLines(em) ==      \* the harness's lines once message m is delivered (and, if need be, closed)
  (IF side = "server" /\ em THEN <<Line("resp", m, 0, Tot)>> ELSE <<>>) \o <<Line("quiet", m, 0, Tot)>>

(* the next read event carries the bytes [pos, b) of message m *)
Read(b) ==
  /\ ~closed /\ b > pos
  /\ (b = Tot) \/ (plan.maxcuts = NoBound \/ ncuts < plan.maxcuts)
  /\ (plan.mode = "bytes") => (b = pos + 1)
  /\ (plan.mode = "bytesrest") => (b = pos + 1 \/ b = Tot)
  /\ LET r == IF dead THEN R(ph, FALSE, 0) ELSE Exec(I, ph, pos, b)
         early == r.emit /\ b < Tot
         em == emitted[m] + (IF r.emit THEN 1 ELSE 0)
         ended == b = Tot /\ L.body # "close"
     IN /\ pos' = b /\ prev' = pos /\ ph' = r.ph
        /\ emitted' = [emitted EXCEPT ![m] = em]
        /\ errors' = errors + (IF r.err # 0 THEN 1 ELSE 0)
        /\ dead' = (dead \/ r.err # 0 \/ early)
        /\ ncuts' = IF plan.maxcuts = NoBound \/ b = Tot THEN ncuts ELSE ncuts + 1
        /\ hist' = Append(hist, <<m, b>>)
        /\ pred' = pred \o (IF r.emit THEN << <<"emit", m, b>> >> ELSE <<>>)
                        \o (IF r.err # 0 THEN << <<"error", m, b>> >> ELSE <<>>)
        /\ Emit(<<Line("read", m, b - pos, b)>>
                \o (IF r.emit THEN <<Line("emit", m, 0, b)>> ELSE <<>>)
                \o (IF r.err # 0 THEN <<Line("error", m, r.err, b)>> ELSE <<>>)
                \o (IF ended THEN EndLines(em > 0) ELSE <<>>))
  /\ UNCHANGED <<side, plan, msgs, m, closed>>

(* the peer closes the connection behind a read-until-close response *)
PeerClose ==
  /\ L.body = "close" /\ pos = Tot /\ ~closed
  /\ LET em == ~dead /\ ph = "body" /\ "untilclose" \notin Defects
     IN /\ closed' = TRUE
        /\ emitted' = [emitted EXCEPT ![m] = @ + (IF em THEN 1 ELSE 0)]
        /\ ph' = IF em THEN "done" ELSE ph
        /\ pred' = pred \o (IF em THEN << <<"emit", m, pos>> >> ELSE <<>>)
        /\ Emit(<<Line("peerclose", m, 0, pos)>>
                \o (IF em THEN <<Line("emit", m, 0, pos)>> ELSE <<>>)
                \o <<Line("quiet", m, 0, pos)>>)
  /\ UNCHANGED <<side, plan, msgs, m, pos, prev, errors, dead, ncuts, hist>>

(* the previous message was answered and keeps the connection alive: the peer
   starts the next one *)
NextMsg ==
  /\ m < Len(msgs) /\ pos = Tot /\ L.body # "close" /\ ~dead /\ emitted[m] = 1
  /\ m' = m + 1 /\ pos' = 0 /\ prev' = 0 /\ ph' = "line"
  /\ Emit(<<Line("next", m, 0, 0)>>)
  /\ UNCHANGED <<side, plan, msgs, closed, emitted, errors, dead, ncuts, hist, pred>>

Next == \/ \E b \in TabTg[plan.mode][side][I] \cup {Tot} : Read(b)
        \/ PeerClose
        \/ NextMsg

Spec == Init /\ [][Next]_vars

-----------------------------------------------------------------------------
TypeOK == /\ m \in 1..Len(msgs) /\ pos \in 0..Tot /\ prev \in 0..pos
          /\ ph \in {"line", "hdr", "body", "done", "stuck", "crash"} /\ bad \in STRING

(* C13 as the monitor's verdict on every behaviour of the model *)
Conforms == bad = ""

(* C13 stated directly on the model's state (independent of the monitor) *)
FullyDelivered == pos = Tot /\ (L.body = "close" => closed)
EmitAtEnd   == \A i \in 1..Len(msgs) : emitted[i] > 0 => (i < m \/ FullyDelivered)    \* never before the last byte
EmitOnce    == \A i \in 1..Len(msgs) : emitted[i] <= 1
NoSpuriousError == errors = 0
DeliveredIsEmitted == FullyDelivered => emitted[m] = 1                                 \* emission is part of the delivering step
PrevIsCut   == prev <= pos /\ (hist # <<>> => hist[Len(hist)] = <<m, pos>> \/ pos = 0)

View == <<side, plan, msgs, m, pos, prev, ph, closed, emitted, errors, dead, ncuts, P, bad>>
=============================================================================
