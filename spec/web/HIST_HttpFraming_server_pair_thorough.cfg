SPECIFICATION Spec
CONSTANTS
  Side = "server"
  Pool <- Selected
  MaxMsgs = 1
  MaxCuts = 2
  Mode = "pm2"
  Defects <- AllDefects
  KeepOut = FALSE
INVARIANT TypeOK
CHECK_DEADLOCK FALSE
