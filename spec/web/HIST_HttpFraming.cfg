SPECIFICATION Spec
CONSTANTS
  Sides = {"server", "client"}
  Plans <- PlansHist
  Defects <- AllDefects
INVARIANT TypeOK
CHECK_DEADLOCK FALSE
