SPECIFICATION Spec
CONSTANTS
  Side = "server"
  Pool <- Selected
  MaxMsgs = 1
  MaxCuts <- NoBound
  Mode = "bytes"
  Defects <- AllDefects
  KeepOut = FALSE
INVARIANT TypeOK
CHECK_DEADLOCK FALSE
