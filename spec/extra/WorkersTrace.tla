---------------------------- MODULE WorkersTrace ----------------------------
(* X03 - trace specification: judges traces recorded from the real
   circuits.core.workers.Worker (harness/drivers/x03.py) with the monitor of
   WorkersOps - the same operators the generative model Workers.tla is checked
   against.  One initial state per trace; each step consumes one line; the
   verdict is total: the first failing clause is kept in `bad`, consumption
   goes on.                                                                  *)
EXTENDS WorkersOps, Json, IOUtils, TLC

Traces == JsonDeserialize(IOEnv.TRACE_FILE)

VARIABLES tid, l, P, bad, badline
vars == <<tid, l, P, bad, badline>>

Init == /\ tid \in 1..Len(Traces) /\ l = 1 /\ P = P0 /\ bad = "" /\ badline = 0

Next == /\ l <= Len(Traces[tid])
        /\ LET ln == Traces[tid][l]
               f  == Fail(P, ln)
           IN /\ bad' = IF bad = "" THEN f ELSE bad
              /\ badline' = IF bad = "" /\ f # "" THEN l ELSE badline
              /\ P' = Apply(P, ln)
        /\ l' = l + 1
        /\ UNCHANGED tid

Spec == Init /\ [][Next]_vars

(* reported once per trace, when its last line has been consumed *)
Report == (l = Len(Traces[tid]) + 1) => PrintT(<<"VERDICT", tid, bad, badline>>)
=============================================================================
