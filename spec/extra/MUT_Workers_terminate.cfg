SPECIFICATION Spec
CONSTANTS
  NT = 2
  MaxSteps = 100000
  Modes = {"fire", "call"}
  Outcomes = {1, 4}
  Variants = {"terminate"}
  WithStop = TRUE
  WithUnreg = TRUE
  WithOther = TRUE
  SettleCap = 40
INVARIANT Conforms
VIEW View
CHECK_DEADLOCK FALSE
