SPECIFICATION Spec
CONSTANTS
  RootTpls = {"var", "root"}
  ATpls = {"idx2", "meth"}
  ABTpls = {"none"}
  Segs = {"a", "x"}
  MaxLen = 2
  Methods = {"GET"}
  Queries = {"none"}
  Bodies = {"none"}
  TSs = {FALSE}
  NCs = {""}
  Dynamic = TRUE
  MaxSteps = 4
  MaxReqs = 2
  Devs = {}
CHECK_DEADLOCK FALSE
