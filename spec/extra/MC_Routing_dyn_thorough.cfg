SPECIFICATION Spec
CONSTANTS
  RootTpls = {"none", "root", "var", "meth", "idx2", "base"}
  ATpls = {"none", "root", "var", "meth", "idx2", "base"}
  ABTpls = {"none", "root", "meth", "base"}
  Segs = {"a", "b", "e", "pub", "x"}
  MaxLen = 2
  Methods = {"GET", "POST"}
  Queries = {"none", "p2", "ze"}
  Bodies = {"none", "z"}
  TSs = {FALSE, TRUE}
  NCs = {"", "dslash", "dot", "pct"}
  Dynamic = TRUE
  MaxSteps = 8
  MaxReqs = 8
  Devs = {}
INVARIANT TypeOK
INVARIANT Conforms
INVARIANT Direct
VIEW View
CHECK_DEADLOCK FALSE
