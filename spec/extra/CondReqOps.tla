---------------------------- MODULE CondReqOps ----------------------------
(* X02 - conditional requests and cache validators of circuits.web, as a
   monitor over trace lines (circuits/web/tools.py: validate_etags,
   validate_since, serve_file's Last-Modified check, expires, gzip; the
   httperror / redirect objects of circuits/web/errors.py they return; the
   Response of circuits/web/wrappers.py as it is sent).

   A trace is a record [cfg |-> case, lines |-> <<line, ...>>].

   case, part = "cond" - a request handler that has a representation to send:
     m      request method
     cur    the representation's entity-tag as a code (0: none).  A code is
            10 * weak + opaque id: 1 = "a", 11 = W/"a", 2 = "b", 12 = W/"b",
            3 = "a;b", 4 = "a,b" (both valid opaque-tags), 5 = the MD5 tag of
            the body (autotags), 15 = its weak form
     lm     1: the representation has a Last-Modified date T, 0: none
     st     the status the answer has without the preconditions (200, 201, 404 ..)
     imk, im1, im2   If-Match: kind "none" | "star" | "list" (im1, im2: tag codes,
            0 = no such element) | "bare" (a, no quotes) | "empty" |
            "starlist" ( *, "a" );  nmk, nm1, nm2  likewise for If-None-Match
     ims, ius        If-Modified-Since / If-Unmodified-Since: "none" | "early"
            (T - 1 day) | "equal" (T, spelled like Last-Modified) | "late" (T + 1
            day) | "alt" (T in the RFC 850 spelling) | "bad" (not an HTTP-date)
     prog   "tools": validate_etags(), then validate_since(); "auto": the same with
            autotags=True; "file": serve_file() on a file with mtime T (no ETag)
     fe     "direct": the Response object is read; "http": the bytes written by
            the real HTTP component are read
   case, part = "exp" - tools.expires(): secs "zero" | "tdzero" | "pos" (60) |
     "td" (timedelta 60 s), force, proto 10 | 11, ind "none" | "etag" | "lm" |
     "age" | "expires" (the cacheability indicator already in the response),
     pragma / cc (a Pragma / Cache-Control header is already there), day "normal"
     | "leap" (the clock shows 29 February)
   case, part = "gzip" - tools.gzip(): ae (Accept-Encoding class), ct (Content-Type
     class), body (non-empty), vary ("none" | "other" | "ae": the Vary header
     already there), clen (Content-Length set before); see GzipAllowed

   lines (the same keys on every line; unused ones are "" / 0 / FALSE):
     k="ret"   a tool returned: tool, code (0: None / the response; else the code of
               the httperror / redirect object), exc (class name if it raised)
     k="resp"  the answer: code (status), body "none" | "own" | "page" | "other",
               hetag hlm hexp hcc hvary (the header the handler set is there,
               unchanged), hct "none" | "own" | "default" | "other", hcl "none" |
               "zero" | "full" (length of the representation) | "other"
     k="xres"  expires() returned: exc, xp (Pragma: "none" | "kept" | "nocache" |
               "other"), xc (Cache-Control, likewise), xe (Expires: "none" | "kept"
               | "past" | "future" | "other"), xd (future: seconds after
               response.time; past: days before now)
     k="gres"  gzip() returned: code, exc, body "none" | "own" | "gz" | "other", xe
               (Content-Encoding "none" | "gzip" | "other"), xc (Vary: "none" |
               "plain" (what was there, without Accept-Encoding) | "ae" (what was
               there and Accept-Encoding, once) | "other"), hcl

   THE STATEMENT (RFC 7232 as far as the tools claim it, and their docstrings):

   S1  [precedence, RFC 7232 section 6 and section 5]  The outcome of a request is
       the one the RFC's evaluation order prescribes: preconditions are ignored
       when the answer without them is not 2xx; else (1) If-Match, strong
       comparison, false => 412; (2) only without If-Match: If-Unmodified-Since,
       false (T later than the date) => 412, ignored if not an HTTP-date; (3)
       If-None-Match, weak comparison, false => 304 for GET / HEAD, 412 for other
       methods; (4) only for GET / HEAD without If-None-Match: If-Modified-Since,
       false => 304; otherwise the method is performed (the status is unchanged).
       Dates are only evaluated when the handler has a Last-Modified (docstring of
       validate_since).
       Left open (every outcome the RFC's rules give under some reading is
       accepted): field values that are not #entity-tag / "*" ("bare", "empty",
       "starlist"); If-Modified-Since with a date later than T or T in another
       spelling (the RFC's 304 is a SHOULD, and the code implements the exact
       match only - deviation ExactMatchOnly).
   S2  [what comes back]  A tool returns None (proceed) or an httperror / redirect
       object whose code is the status of the response; it does not raise.
   S3  [304, RFC 7232 section 4.1, RFC 7230 section 3.3.2]  A 304 has no body, still carries
       the ETag, Cache-Control and Vary the 200 would carry, no Content-Length other
       than the representation's, no Content-Type other than the representation's.
       (Expires, Content-Location and Last-Modified are removed by errors.redirect
       on purpose - it quotes RFC 2616 10.3.5 - deviation NotModifiedStripsEntityHeaders;
       the monitor leaves them open.)
   S4  [proceed]  When the method is performed the tools have changed nothing: the
       status, the validators and the representation headers are the handler's.
   S5  [412]  A 412 does not carry the representation.
   S6  [expires(), its docstring]  see ExpFail.
   S7  [gzip(), its docstring]  see GzipAllowed and GzipFail.

   Fail(P, ln) names the violated clause ("" if none).                        *)
EXTENDS Integers, Sequences

Line(k, tool, code, exc, body, hetag, hlm, hexp, hcc, hvary, hct, hcl, xp, xc, xe, xd) ==
  [k |-> k, tool |-> tool, code |-> code, exc |-> exc, body |-> body, hetag |-> hetag, hlm |-> hlm,
   hexp |-> hexp, hcc |-> hcc, hvary |-> hvary, hct |-> hct, hcl |-> hcl, xp |-> xp, xc |-> xc, xe |-> xe, xd |-> xd]
RetLine(tool, code, exc) == Line("ret", tool, code, exc, "", FALSE, FALSE, FALSE, FALSE, FALSE, "", "", "", "", "", 0)
RespLine(code, body, hetag, hlm, hexp, hcc, hvary, hct, hcl) ==
  Line("resp", "", code, "", body, hetag, hlm, hexp, hcc, hvary, hct, hcl, "", "", "", 0)
XresLine(exc, xp, xc, xe, xd) == Line("xres", "", 0, exc, "", FALSE, FALSE, FALSE, FALSE, FALSE, "", "", xp, xc, xe, xd)
GresLine(code, exc, body, xe, xc, hcl) == Line("gres", "", code, exc, body, FALSE, FALSE, FALSE, FALSE, FALSE, "", hcl, "", xc, xe, 0)

Safe == {"GET", "HEAD"}
Is2xx(s) == s >= 200 /\ s <= 299

-----------------------------------------------------------------------------
(* entity-tags (RFC 7232 section 2.3.2) *)
Weak(t) == t >= 10
Opaque(t) == t % 10
StrongEq(a, b) == a # 0 /\ b # 0 /\ ~Weak(a) /\ ~Weak(b) /\ a = b
WeakEq(a, b) == a # 0 /\ b # 0 /\ Opaque(a) = Opaque(b)

(* the entity-tag of the representation: with autotags and no tag of its own, a
   200 answer gets the MD5 tag of its body *)
CurTag(c) == IF c.prog = "auto" /\ c.cur = 0 /\ c.st = 200 THEN 5 ELSE c.cur

(* does the If-Match condition hold / does some If-None-Match tag match:
   "absent" | "yes" | "no" | "open" (not a valid field value) *)
IfMatch(c) ==
  CASE c.imk = "none" -> "absent"
    [] c.imk = "star" -> "yes"                     \* the handler has a current representation
    [] c.imk = "list" -> IF StrongEq(CurTag(c), c.im1) \/ StrongEq(CurTag(c), c.im2) THEN "yes" ELSE "no"
    [] OTHER -> "open"
NoneMatchHit(c) ==
  CASE c.nmk = "none" -> "absent"
    [] c.nmk = "star" -> "yes"
    [] c.nmk = "list" -> IF WeakEq(CurTag(c), c.nm1) \/ WeakEq(CurTag(c), c.nm2) THEN "yes" ELSE "no"
    [] OTHER -> "open"

(* RFC 7232 section 6, as the set of allowed outcomes: 0 = perform the method *)
FailCode(c) == IF c.m \in Safe THEN 304 ELSE 412
Step4(c) == IF c.m \in Safe /\ c.ims # "none" /\ c.lm # 0
            THEN CASE c.ims = "equal" -> {304}
                   [] c.ims \in {"late", "alt"} -> {304, 0}      \* ExactMatchOnly is tolerated
                   [] OTHER -> {0}                               \* modified since / not a date
            ELSE {0}
Step3(c) == CASE NoneMatchHit(c) = "absent" -> Step4(c)
              [] NoneMatchHit(c) = "yes" -> {FailCode(c)}
              [] NoneMatchHit(c) = "no" -> {0}
              [] OTHER -> Step4(c) \cup {FailCode(c), 0}
Step2(c) == IF c.ius = "early" /\ c.lm # 0 THEN {412} ELSE Step3(c)
Step1(c) == CASE IfMatch(c) = "absent" -> Step2(c)
              [] IfMatch(c) = "yes" -> Step3(c)
              [] IfMatch(c) = "no" -> {412}
              [] OTHER -> Step2(c) \cup Step3(c) \cup {412}
Expected(c) == IF Is2xx(c.st) THEN Step1(c) ELSE {0}

(* which headers the handler's 200 carries *)
HadEtag(c) == CurTag(c) # 0
HadLm(c) == c.lm # 0
HadRep(c) == c.prog # "file"       \* Expires, Cache-Control, Vary, Content-Type set by the handler

-----------------------------------------------------------------------------
P0(cfg) == [cfg |-> cfg, last |-> 0, nret |-> 0, done |-> FALSE]

CondFail(P, ln) ==
  LET c == P.cfg IN
  CASE ln.k = "ret" ->
         IF P.done THEN "X02.trace_shape"
         ELSE IF ln.exc # "" \/ ln.code >= 500 THEN "X02.internal_error"
         ELSE IF ln.code \notin {0, 304, 412} THEN "X02.unexpected_error_object"
         ELSE ""
    [] ln.k = "resp" ->
         LET got == IF ln.code \in {304, 412} THEN ln.code ELSE IF ln.code = c.st THEN 0 ELSE -1
             exp == Expected(c)
         IN
         IF P.done \/ P.nret = 0 THEN "X02.trace_shape"
         ELSE IF ln.code >= 500 THEN "X02.internal_error"
         ELSE IF got = -1 THEN "X02.status_changed"
         ELSE IF got \notin exp THEN
              (IF got = 412 THEN "X02.spurious_412"
               ELSE IF got = 304 THEN (IF c.m \in Safe THEN "X02.spurious_304" ELSE "X02.unsafe_304")
               ELSE IF 304 \in exp THEN "X02.missed_304" ELSE "X02.missed_412")
         ELSE IF P.last # got THEN "X02.status_mismatch"
         ELSE IF got = 304 THEN
              (IF ln.body # "none" THEN "X02.not_modified_body"
               ELSE IF HadEtag(c) /\ ~ln.hetag THEN "X02.not_modified_validator"
               ELSE IF HadRep(c) /\ ~(ln.hcc /\ ln.hvary) THEN "X02.not_modified_headers"
               ELSE IF ln.hcl \notin {"none", "full"} THEN "X02.not_modified_length"
               ELSE IF ln.hct \notin {"none", "own"} THEN "X02.not_modified_type"
               ELSE "")
         ELSE IF got = 412 THEN
              (IF ln.body \notin {"page", "none"} THEN "X02.precondition_body" ELSE "")
         ELSE (IF ln.body # "own" /\ ~(ln.body = "none" /\ c.m = "HEAD" /\ c.fe = "http") THEN "X02.proceed_altered"
               ELSE IF HadEtag(c) /\ ~ln.hetag THEN "X02.proceed_altered"
               ELSE IF HadLm(c) /\ ~ln.hlm THEN "X02.proceed_altered"
               ELSE IF HadRep(c) /\ ~(ln.hexp /\ ln.hcc /\ ln.hvary) THEN "X02.proceed_altered"
               ELSE IF ln.hct # "own" THEN "X02.proceed_altered"
               ELSE "")
    [] OTHER -> "X02.trace_shape"

(* expires(): docstring of the tool.  With HTTP/1.0 the Cache-Control header is
   left open (the docstring does not say; the code only sets it for >= 1.1). *)
ExpFail(P, ln) ==
  LET c == P.cfg
      cacheable == ~c.force /\ c.ind # "none"
      zero == c.secs \in {"zero", "tdzero"}
      p0 == IF c.pragma THEN "kept" ELSE "none"
      c0 == IF c.cc THEN "kept" ELSE "none"
      e0 == IF c.ind = "expires" THEN "kept" ELSE "none"
  IN
  IF ln.k # "xres" \/ P.done THEN "X02.trace_shape"
  ELSE IF ln.exc # "" THEN "X02.internal_error"
  ELSE IF cacheable THEN
       (IF ln.xp = p0 /\ ln.xc = c0 /\ ln.xe = e0 THEN "" ELSE "X02.expires_cacheable_touched")
  ELSE IF zero THEN
       (IF ln.xp # (IF c.force \/ ~c.pragma THEN "nocache" ELSE "kept") THEN "X02.expires_pragma"
        ELSE IF c.proto = 11 /\ ln.xc # (IF c.force \/ ~c.cc THEN "nocache" ELSE "kept") THEN "X02.expires_cache_control"
        ELSE IF c.proto = 10 /\ ln.xc \notin {c0, "nocache"} THEN "X02.expires_cache_control"
        ELSE IF ~(ln.xe = "past" /\ ln.xd \in 365..366) THEN "X02.expires_date"
        ELSE "")
  ELSE (IF ln.xp # p0 \/ ln.xc # c0 THEN "X02.expires_cacheable_touched"
        ELSE IF ~(ln.xe = "future" /\ ln.xd = 60) THEN "X02.expires_date"
        ELSE "")

(* gzip(): its docstring, read with RFC 7231 section 5.3.4 (identity is acceptable unless
   it is ruled out with q=0).  Allowed results: "gz" (compressed: Content-Encoding
   gzip, Vary names Accept-Encoding once and keeps what was there, no
   Content-Length), "same" (nothing changed), "406".
     ae classes: "none" (no header) | "gzip" | "xgzip" (x-gzip) | "brgzip" (br, gzip)
     | "gzipq0" (gzip;q=0) | "identity" | "idgzip" (identity, gzip;q=0.5) | "gzipid"
     (gzip, identity;q=0.5) | "idq0gzip" (identity;q=0, gzip) | "idq0" (identity;q=0)
     | "deflate" | "star" ( * )
     ct classes: "html" | "plain" (in mime_types) | "none" (no Content-Type: the tool
     assumes text/html) | "png" (not in mime_types)                               *)
GzipAllowed(c) ==
  LET mime == c.ct \in {"html", "plain", "none"} IN
  IF ~c.body \/ c.ae = "none" THEN {"same"}
  ELSE CASE c.ae \in {"gzip", "xgzip", "brgzip"} -> IF mime THEN {"gz"} ELSE {"same"}
         [] c.ae \in {"gzipq0", "identity", "idgzip", "deflate"} -> {"same"}
         [] c.ae = "star" -> IF mime THEN {"same", "gz"} ELSE {"same"}
         [] c.ae = "gzipid" -> IF mime THEN {"gz", "same"} ELSE {"same"}   \* docstring: no; RFC: may
         [] c.ae = "idq0gzip" -> IF mime THEN {"gz"} ELSE {"same", "406"}
         [] c.ae = "idq0" -> {"406", "same"}
         [] OTHER -> {"same"}
GzipFail(P, ln) ==
  LET c == P.cfg
      v0 == IF c.vary = "none" THEN "none" ELSE IF c.vary = "ae" THEN "ae" ELSE "plain"
      l0 == IF ~c.clen THEN "none" ELSE IF c.body THEN "full" ELSE "zero"
      b0 == IF c.body THEN "own" ELSE "none"
      got == IF ln.code = 406 THEN "406"
             ELSE IF ln.code # 0 THEN "err"
             ELSE IF ln.body = "gz" /\ ln.xe = "gzip" THEN "gz"
             ELSE IF ln.body = b0 /\ ln.xe = "none" THEN "same"
             ELSE "garbled"
  IN
  IF ln.k # "gres" \/ P.done THEN "X02.trace_shape"
  ELSE IF ln.exc # "" \/ ln.code >= 500 THEN "X02.internal_error"
  ELSE IF got \in {"err", "garbled"} THEN "X02.gzip_garbled"
  ELSE IF got \notin GzipAllowed(c) THEN
       (IF got = "406" THEN "X02.gzip_not_acceptable" ELSE IF got = "gz" THEN "X02.gzip_unasked" ELSE "X02.gzip_missing")
  ELSE IF got = "gz" /\ ln.xc # "ae" THEN "X02.gzip_vary"
  ELSE IF got = "gz" /\ ln.hcl # "none" THEN "X02.gzip_length"
  ELSE IF got = "same" /\ (ln.xc # v0 \/ ln.hcl # l0) THEN "X02.gzip_unasked"
  ELSE ""

Fail(P, ln) ==
  CASE P.cfg.part = "cond" -> CondFail(P, ln)
    [] P.cfg.part = "exp" -> ExpFail(P, ln)
    [] P.cfg.part = "gzip" -> GzipFail(P, ln)
    [] OTHER -> "X02.trace_shape"

Apply(P, ln) ==
  CASE ln.k = "ret" -> [P EXCEPT !.last = IF ln.code \in {304, 412} THEN ln.code ELSE @, !.nret = @ + 1]
    [] ln.k \in {"resp", "xres", "gres"} -> [P EXCEPT !.done = TRUE]
    [] OTHER -> P

RECURSIVE Run(_, _, _)
Run(P, lines, badSoFar) ==
  IF lines = <<>> THEN <<P, badSoFar>>
  ELSE LET ln == Head(lines)
           f  == IF badSoFar = "" THEN Fail(P, ln) ELSE badSoFar
       IN Run(Apply(P, ln), Tail(lines), f)
=============================================================================
