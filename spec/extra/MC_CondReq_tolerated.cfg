SPECIFICATION Spec
CONSTANTS
  Part = "cond"
  Size = "quick"
  Defects = {"ims_exact"}
INVARIANT TypeOK
INVARIANT Conforms
CHECK_DEADLOCK FALSE
