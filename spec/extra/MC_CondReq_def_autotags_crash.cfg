SPECIFICATION Spec
CONSTANTS
  Part = "cond"
  Size = "quick"
  Defects = {"autotags_crash"}
INVARIANT TypeOK
INVARIANT Conforms
CHECK_DEADLOCK FALSE
