SPECIFICATION Spec
CONSTANTS
  Part = "cond"
  Size = "cov"
  Defects = {"elements_parser", "im_string", "nm_string", "ius_string", "no_precedence", "ius_after_inm", "ims_unsafe", "ims_exact", "autotags_crash", "prepare304", "leapday", "gzip406"}
INVARIANT TypeOK
CHECK_DEADLOCK FALSE
