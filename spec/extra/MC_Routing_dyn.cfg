SPECIFICATION Spec
CONSTANTS
  RootTpls = {"none", "var", "idx2"}
  ATpls = {"none", "meth", "idx2", "base"}
  ABTpls = {"none", "root", "base"}
  Segs = {"a", "b", "e", "pub"}
  MaxLen = 2
  Methods = {"GET", "POST"}
  Queries = {"none", "p2"}
  Bodies = {"none", "z"}
  TSs = {FALSE, TRUE}
  NCs = {"", "dslash", "dot", "pct"}
  Dynamic = TRUE
  MaxSteps = 6
  MaxReqs = 6
  Devs = {}
INVARIANT TypeOK
INVARIANT Conforms
INVARIANT Direct
VIEW View
CHECK_DEADLOCK FALSE
