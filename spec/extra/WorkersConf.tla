----------------------------- MODULE WorkersConf -----------------------------
(* X03 - the generative model driven along given environment histories.

   Input (IOEnv.TRACE_FILE): a sequence of records [variant, hist]; hist is a
   sequence of <<op, a, b>> as kept in Workers!hist.  For each of them the
   model takes, step by step, exactly the action the history names and, when
   the history is used up,
   prints <<"LINES", tid, bad, out>>: the trace lines Workers.tla emits for
   that history and the monitor's verdict on them.  The driver compares them
   with the lines the real Worker produced for the same script (normal form).
   A history that is not a behaviour of the model (a step that is not
   enabled) gets no LINES.                                                  *)
EXTENDS Workers, Json, IOUtils

H == JsonDeserialize(IOEnv.TRACE_FILE)

VARIABLE tid
cvars == <<st, variant, P, bad, hist, out, tid>>

InitC == /\ tid \in 1..Len(H)
         /\ Init
         /\ variant = H[tid].variant

NextC == /\ Len(hist) < Len(H[tid].hist)
         /\ LET h == H[tid].hist[Len(hist) + 1] IN
              \/ h[1] = "F" /\ Fire(IF h[2] = 1 THEN "fire" ELSE "call", h[3])
              \/ h[1] = "T" /\ Tick
              \/ h[1] = "X" /\ h[2] \in TS /\ Exec(h[2])
              \/ h[1] = "P" /\ h[2] \in TS /\ Publish(h[2])
              \/ h[1] = "S" /\ Stop
              \/ h[1] = "U" /\ Unreg
              \/ h[1] = "O" /\ Other
              \/ h[1] = "Q" /\ Quiet
         /\ UNCHANGED tid

SpecC == InitC /\ [][NextC]_cvars

Report == (Len(hist) = Len(H[tid].hist)) => PrintT(<<"LINES", tid, bad, out>>)
=============================================================================
