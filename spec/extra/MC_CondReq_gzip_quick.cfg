SPECIFICATION Spec
CONSTANTS
  Part = "gzip"
  Size = "quick"
  Defects = {}
INVARIANT TypeOK
INVARIANT Conforms
INVARIANT NeverUnsafe304
INVARIANT IfMatchGuards
INVARIANT Export
CHECK_DEADLOCK FALSE
