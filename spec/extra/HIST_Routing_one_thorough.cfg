SPECIFICATION Spec
CONSTANTS
  RootTpls = {"none", "root", "var", "idx2"}
  ATpls = {"none", "root", "var", "meth", "idx2", "base"}
  ABTpls = {"none", "root", "meth", "base"}
  Segs = {"a", "b", "f", "x", "ev", "index"}
  MaxLen = 2
  Methods = {"GET", "POST"}
  Queries = {"none", "p1"}
  Bodies = {"none"}
  TSs = {FALSE}
  NCs = {""}
  Dynamic = FALSE
  MaxSteps = 1
  MaxReqs = 1
  Devs = {}
CHECK_DEADLOCK FALSE
