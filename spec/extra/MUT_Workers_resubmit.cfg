SPECIFICATION Spec
CONSTANTS
  MaxT = 2
  NT = 2
  MaxSteps = 100000
  Modes = {"fire", "call"}
  Outcomes = {1, 4}
  Variants = {"resubmit"}
  WithStop = TRUE
  WithUnreg = TRUE
  WithOther = FALSE
  KeepOut = FALSE
INVARIANT Conforms
VIEW View
CHECK_DEADLOCK FALSE
