SPECIFICATION Spec
CONSTANTS
  RootTpls = {"none", "idx2", "var"}
  ATpls = {"none", "idx2", "var"}
  ABTpls = {"none"}
  Segs = {"a", "f", "x", "ev"}
  MaxLen = 3
  Methods = {"GET"}
  Queries = {"none"}
  Bodies = {"none"}
  TSs = {FALSE}
  NCs = {""}
  Dynamic = FALSE
  MaxSteps = 1
  MaxReqs = 1
  Devs = {"unexposed"}
INVARIANT TypeOK
INVARIANT Conforms
VIEW View
CHECK_DEADLOCK FALSE
