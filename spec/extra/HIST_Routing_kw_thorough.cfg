SPECIFICATION Spec
CONSTANTS
  RootTpls = {"root", "var", "idx2"}
  ATpls = {"none", "meth", "base", "idx2"}
  ABTpls = {"none"}
  Segs = {"a", "x", "f"}
  MaxLen = 2
  Methods = {"GET", "POST"}
  Queries = {"none", "p1", "p2", "z", "ze"}
  Bodies = {"none", "p1", "z"}
  TSs = {FALSE}
  NCs = {""}
  Dynamic = FALSE
  MaxSteps = 1
  MaxReqs = 1
  Devs = {}
CHECK_DEADLOCK FALSE
