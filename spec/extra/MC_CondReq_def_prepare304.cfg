SPECIFICATION Spec
CONSTANTS
  Part = "cond"
  Size = "quick"
  Defects = {"prepare304"}
INVARIANT TypeOK
INVARIANT Conforms
CHECK_DEADLOCK FALSE
