SPECIFICATION Spec
CONSTANTS
  MaxT = 8
INVARIANT Report
CHECK_DEADLOCK FALSE
