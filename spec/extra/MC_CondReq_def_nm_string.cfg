SPECIFICATION Spec
CONSTANTS
  Part = "cond"
  Size = "quick"
  Defects = {"nm_string"}
INVARIANT TypeOK
INVARIANT Conforms
CHECK_DEADLOCK FALSE
