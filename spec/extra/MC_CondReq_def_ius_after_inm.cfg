SPECIFICATION Spec
CONSTANTS
  Part = "cond"
  Size = "quick"
  Defects = {"ius_after_inm"}
INVARIANT TypeOK
INVARIANT Conforms
CHECK_DEADLOCK FALSE
