SPECIFICATION Spec
CONSTANTS
  Part = "cond"
  Size = "quick"
  Defects = {}
INVARIANT TypeOK
INVARIANT Conforms
INVARIANT NeverUnsafe304
INVARIANT IfMatchGuards
INVARIANT Export
CHECK_DEADLOCK FALSE
