SPECIFICATION Spec
CONSTANTS
  Part = "cond"
  Size = "quick"
  Defects = {"no_precedence"}
INVARIANT TypeOK
INVARIANT Conforms
CHECK_DEADLOCK FALSE
