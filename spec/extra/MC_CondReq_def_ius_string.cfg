SPECIFICATION Spec
CONSTANTS
  Part = "cond"
  Size = "quick"
  Defects = {"ius_string"}
INVARIANT TypeOK
INVARIANT Conforms
CHECK_DEADLOCK FALSE
