SPECIFICATION Spec
CONSTANTS
  RootTpls = {"none", "root", "var", "meth", "idx2", "base"}
  ATpls = {"none", "root", "var", "meth", "idx2", "base"}
  ABTpls = {"none", "root", "var", "meth", "idx2", "base"}
  Segs = {"a", "b", "f", "x", "index", "ev", "GET", "t.txt", "h", "_p", "prepare_unregister_complete"}
  MaxLen = 3
  Methods = {"GET", "POST"}
  Queries = {"none", "p1", "z"}
  Bodies = {"none", "p1"}
  TSs = {FALSE}
  NCs = {""}
  Dynamic = FALSE
  MaxSteps = 6
  MaxReqs = 6
  Devs = {}
INVARIANT TypeOK
INVARIANT Conforms
INVARIANT Direct
VIEW View
CHECK_DEADLOCK FALSE
