---------------------------- MODULE RoutingOps ----------------------------
(* X01 - request routing of circuits.web (Dispatcher + Controller/expose),
   the statement as a monitor over trace lines.

   A trace is a record [cfg |-> C, lines |-> <<...>>].

   C.ctrls : sequence of controllers [chan |-> <<segments>>, hs |-> <<handlers>>]
             (chan = <<>> is the channel "/", <<"a","b">> is "/a/b"); a handler is
             [name, exp, na, nd, var, kw]:
               name  the name it is known under (the name given to @expose, or
                     the method name of a public Controller method; for a method
                     that is NOT exposed: the name a request would have to use)
               exp   TRUE iff the documentation calls it exposed (public method
                     of a Controller, or decorated with @expose(name)); FALSE for
                     _underscore methods, @expose(False), public methods of a
                     BaseController without @expose, plain @handler methods
               na    number of named positional parameters p1..p_na (after self)
               nd    how many of them (the last nd) have a default
               var   has *args          kw   has **kwargs
   C.reqs  : sequence of requests [m, segs, canon, keys, q, b]:
               m      HTTP method      segs   the non-empty path segments, decoded
               canon  FALSE iff the request target was sent with an empty
                      segment, a dot segment or any %-escape: the server may then
                      refuse or redirect instead of routing (HTTP._on_read)
               q, b   parameters of the query string / of the urlencoded body,
                      sequences of [k, v]; keys = the distinct k, sorted

   A line is a flat record [k, c, h, r, args, kw, st]:
     k="reg"    controller c (index into C.ctrls) was registered
     k="unreg"  controller c was unregistered
     k="req"    request r (index into C.reqs) is handed to the server
     k="run"    the body of handler h (index into C.ctrls[c].hs) of controller c
                ran; args = what it saw in p1..p_na ("~" where the default was
                kept) followed by *args, joined with "/"; kw = what it saw in
                **kwargs, "k=v" sorted by k, joined with "&"
     k="resp"   the response to the current request is complete, st = status
                (0: the server never answered)

   The statement (clauses):
     unexposed_reached   no request ever runs a method that is not exposed
     unregistered_reached  ... or a controller that is not registered
     ran_twice           at most one handler body runs per request
     wrong_handler       the handler that runs is named by the path: for its
                         controller's channel ch, segs = ch ++ rest, and it is
                         (a) the handler called like the HTTP method [args = rest]
                         (b) the handler called rest[1]      [args = Tail(rest)]
                         (c) the handler called "index"            [args = rest]
     args_not_segments   its positional arguments are exactly those remaining
                         segments, in order, its keyword arguments exactly the
                         request parameters (when a key is in the query and in
                         the body either value may win)
     priority            candidates are ordered: longest registered channel first;
                         per channel (a), (b), (c).  A candidate of kind (b)/(c)
                         that cannot take that many positional arguments is passed
                         over; the first remaining one is the PICK.  If the pick can
                         be called with the arguments (and the segments alone, or
                         with no segments the parameters alone, fill what has no
                         default) it runs, nothing else.  If it cannot (too few
                         segments, a parameter it does not know, a parameter given
                         twice) the documentation is silent: an error answer
                         without any handler run, or a later candidate that can
                         be called, are both accepted
     not_routed          pick callable in that sense => something runs
     unroutable_not_404  no pick => 404, nothing runs
     ok_without_handler  nothing ran => not a 200
     ran_but_error       a handler ran (they all return text) => 200
     no_response         every request is answered
   For a request with canon = FALSE only the clauses about what runs apply; any
   answer other than 200-without-handler is accepted.                          *)
EXTENDS Integers, Sequences, FiniteSets

Line(k, c, h, r, args, kw, st) ==
  [k |-> k, c |-> c, h |-> h, r |-> r, args |-> args, kw |-> kw, st |-> st]

(* monitor state: registered controllers; current request (0: none); handler
   bodies run for it; its candidates and the index of the pick (computed when
   the request is seen)                                                       *)
P0 == [reg |-> {}, cur |-> 0, ran |-> 0, cands |-> <<>>, pick |-> 0]

-----------------------------------------------------------------------------
(* strings *)
RECURSIVE JoinFrom(_, _, _)
JoinFrom(s, i, sep) == IF i > Len(s) THEN ""
                       ELSE IF i = Len(s) THEN s[i]
                       ELSE s[i] \o sep \o JoinFrom(s, i + 1, sep)
Join(s, sep) == JoinFrom(s, 1, sep)

ParamName(i) == CASE i = 1 -> "p1" [] i = 2 -> "p2" [] i = 3 -> "p3" [] OTHER -> "p?"
PIdx(k) == CASE k = "p1" -> 1 [] k = "p2" -> 2 [] k = "p3" -> 3 [] OTHER -> 0

Prefix(s, i) == SubSeq(s, 1, i)
Rest(s, i) == SubSeq(s, i + 1, Len(s))

-----------------------------------------------------------------------------
(* request parameters *)
KeySet(rq) == {rq.keys[i] : i \in 1..Len(rq.keys)}
AllPairs(rq) == rq.q \o rq.b
Vals(rq, k) == {AllPairs(rq)[i].v : i \in {j \in 1..Len(AllPairs(rq)) : AllPairs(rq)[j].k = k}}
AllVals(rq) == {AllPairs(rq)[i].v : i \in 1..Len(AllPairs(rq))}
(* every way of settling which value a key carries *)
Choices(rq) == {f \in [KeySet(rq) -> AllVals(rq)] : \A k \in KeySet(rq) : f[k] \in Vals(rq, k)}

(* can Python call H with n positional arguments and keyword arguments K ? *)
Binds(H, n, K) ==
  /\ (n <= H.na \/ H.var)
  /\ \A k \in K : IF PIdx(k) \in 1..H.na THEN PIdx(k) > n ELSE H.kw
  /\ \A i \in (n + 1)..(H.na - H.nd) : ParamName(i) \in K

(* what the handler body then sees *)
NamedSeen(H, args, K, f) ==
  [i \in 1..H.na |-> IF i <= Len(args) THEN args[i]
                     ELSE IF ParamName(i) \in K THEN f[ParamName(i)] ELSE "~"]
ArgStr(H, args, K, f) ==
  LET named == NamedSeen(H, args, K, f)
      all   == [i \in 1..(IF Len(args) > H.na THEN Len(args) ELSE H.na) |->
                  IF i <= H.na THEN named[i] ELSE args[i]]
  IN Join(all, "/")
RECURSIVE KwFrom(_, _, _, _)
KwFrom(H, keys, i, f) ==
  IF i > Len(keys) THEN <<>>
  ELSE (IF PIdx(keys[i]) \in 1..H.na THEN <<>> ELSE <<keys[i] \o "=" \o f[keys[i]]>>)
       \o KwFrom(H, keys, i + 1, f)
KwStr(H, rq, f) == Join(KwFrom(H, rq.keys, 1, f), "&")

-----------------------------------------------------------------------------
(* the documented resolution order *)
ExpIdx(C, c, nm) == {j \in 1..Len(C.ctrls[c].hs) : C.ctrls[c].hs[j].exp /\ C.ctrls[c].hs[j].name = nm}
One(S) == CHOOSE x \in S : TRUE
Cand(c, j, args, via) == [c |-> c, j |-> j, args |-> args, via |-> via]

CandsAt(C, c, m, rest) ==
  LET byM == ExpIdx(C, c, m)
      byN == IF rest = <<>> THEN {} ELSE ExpIdx(C, c, rest[1])
      byI == ExpIdx(C, c, "index")
  IN (IF byM # {} THEN <<Cand(c, One(byM), rest, "method")>> ELSE <<>>)
     \o (IF byN # {} THEN <<Cand(c, One(byN), Tail(rest), "name")>> ELSE <<>>)
     \o (IF byI # {} THEN <<Cand(c, One(byI), rest, "index")>> ELSE <<>>)

RECURSIVE CandsFrom(_, _, _, _, _)
CandsFrom(C, reg, m, segs, i) ==
  IF i < 0 THEN <<>>
  ELSE LET cs == {c \in reg : C.ctrls[c].chan = Prefix(segs, i)}
       IN (IF cs = {} THEN <<>> ELSE CandsAt(C, One(cs), m, Rest(segs, i)))
          \o CandsFrom(C, reg, m, segs, i - 1)
Cands(C, reg, rq) == CandsFrom(C, reg, rq.m, rq.segs, Len(rq.segs))

HOf(C, cd) == C.ctrls[cd.c].hs[cd.j]
PassedOver(C, cd) == cd.via # "method" /\ ~HOf(C, cd).var /\ Len(cd.args) > HOf(C, cd).na
CBinds(C, cd, rq) == Binds(HOf(C, cd), Len(cd.args), KeySet(rq))
(* the call is one the documentation shows: the segments alone fill every
   parameter without a default (or there are no segments at all and the
   request parameters do: /query?test=1).  Segments for some of the required
   parameters and request parameters for the rest is a mixture the
   documentation never shows: whether such a candidate is taken is left open  *)
Firm(C, cd, rq) == /\ CBinds(C, cd, rq)
                   /\ (Len(cd.args) = 0 \/ Len(cd.args) >= HOf(C, cd).na - HOf(C, cd).nd)
(* index of the pick in the candidate sequence, 0 if there is none *)
Pick(C, cands) ==
  LET ok == {i \in 1..Len(cands) : ~PassedOver(C, cands[i])}
  IN IF ok = {} THEN 0 ELSE CHOOSE i \in ok : \A j \in ok : i <= j

(* candidates a "run" line is an execution of *)
Matches(C, cands, rq, ln) ==
  {i \in 1..Len(cands) :
     /\ cands[i].c = ln.c /\ cands[i].j = ln.h
     /\ CBinds(C, cands[i], rq)
     /\ \E f \in Choices(rq) : /\ ln.args = ArgStr(HOf(C, cands[i]), cands[i].args, KeySet(rq), f)
                               /\ ln.kw = KwStr(HOf(C, cands[i]), rq, f)}

-----------------------------------------------------------------------------
Fail(C, P, ln) ==
  CASE ln.k = "run" ->
         IF P.cur = 0 THEN "X01.run_outside_request"
         ELSE IF P.ran > 0 THEN "X01.ran_twice"
         ELSE IF ln.c \notin P.reg THEN "X01.unregistered_reached"
         ELSE IF ~C.ctrls[ln.c].hs[ln.h].exp THEN "X01.unexposed_reached"
         ELSE LET rq    == C.reqs[P.cur]
                  cands == P.cands
                  named == {i \in 1..Len(cands) : cands[i].c = ln.c /\ cands[i].j = ln.h}
                  mt    == Matches(C, cands, rq, ln)
                  pk    == P.pick
              IN IF named = {} THEN "X01.wrong_handler"
                 ELSE IF mt = {} THEN "X01.args_not_segments"
                 ELSE IF pk \in mt THEN ""
                 ELSE IF Firm(C, cands[pk], rq) THEN "X01.priority"   \* mt # {} => pk # 0
                 ELSE ""
    [] ln.k = "resp" ->
         IF P.cur = 0 THEN "X01.resp_outside_request"
         ELSE IF ln.st = 0 THEN "X01.no_response"
         ELSE IF P.ran > 0 THEN (IF ln.st # 200 THEN "X01.ran_but_error" ELSE "")
         ELSE IF ln.st = 200 THEN "X01.ok_without_handler"
         ELSE LET rq    == C.reqs[P.cur]
                  cands == P.cands
                  pk    == P.pick
              IN IF ~rq.canon THEN ""
                 ELSE IF pk = 0 THEN (IF ln.st # 404 THEN "X01.unroutable_not_404" ELSE "")
                 ELSE IF Firm(C, cands[pk], rq) THEN "X01.not_routed"
                 ELSE ""
    [] OTHER -> ""

Apply(C, P, ln) ==
  CASE ln.k = "reg" -> [P EXCEPT !.reg = @ \cup {ln.c}]
    [] ln.k = "unreg" -> [P EXCEPT !.reg = @ \ {ln.c}]
    [] ln.k = "req" -> LET cands == Cands(C, P.reg, C.reqs[ln.r])
                       IN [P EXCEPT !.cur = ln.r, !.ran = 0, !.cands = cands, !.pick = Pick(C, cands)]
    [] ln.k = "run" -> [P EXCEPT !.ran = @ + 1]
    [] ln.k = "resp" -> [P EXCEPT !.cur = 0, !.cands = <<>>, !.pick = 0]
    [] OTHER -> P

RECURSIVE Run(_, _, _, _)
Run(C, P, lines, badSoFar) ==
  IF lines = <<>> THEN <<P, badSoFar>>
  ELSE LET ln == Head(lines)
           f  == IF badSoFar = "" THEN Fail(C, P, ln) ELSE badSoFar
       IN Run(C, Apply(C, P, ln), Tail(lines), f)
=============================================================================
