---------------------------- MODULE RoutingTrace ----------------------------
(* X01 - trace specification: judges traces recorded from the real
   circuits.web Dispatcher and Controllers (behind the real HTTP component)
   with the monitor of RoutingOps, the same operators the generative model
   Routing.tla is checked against.  A trace is [cfg |-> C, lines |-> <<..>>];
   one initial state per trace; each step consumes one line; the verdict is
   total: the first failing clause is kept in `bad` and consumption goes on.  *)
EXTENDS RoutingOps, Json, IOUtils, TLC

Traces == JsonDeserialize(IOEnv.TRACE_FILE)

VARIABLES tid, l, P, bad, badline
vars == <<tid, l, P, bad, badline>>

Init == /\ tid \in 1..Len(Traces) /\ l = 1 /\ P = P0 /\ bad = "" /\ badline = 0

Next == /\ l <= Len(Traces[tid].lines)
        /\ LET C  == Traces[tid].cfg
               ln == Traces[tid].lines[l]
               f  == Fail(C, P, ln)
           IN /\ bad' = IF bad = "" THEN f ELSE bad
              /\ badline' = IF bad = "" /\ f # "" THEN l ELSE badline
              /\ P' = Apply(C, P, ln)
        /\ l' = l + 1
        /\ UNCHANGED tid

Spec == Init /\ [][Next]_vars

(* reported once per trace, when its last line has been consumed *)
Report == (l = Len(Traces[tid].lines) + 1) => PrintT(<<"VERDICT", tid, bad, badline>>)
=============================================================================
