SPECIFICATION Spec
CONSTANTS
  RootTpls = {"root", "var", "idx2"}
  ATpls = {"none", "idx2", "base"}
  ABTpls = {"none", "meth"}
  Segs = {"a", "b", "f", "x", "ev"}
  MaxLen = 2
  Methods = {"GET", "POST"}
  Queries = {"none", "p1"}
  Bodies = {"none"}
  TSs = {FALSE}
  NCs = {""}
  Dynamic = FALSE
  MaxSteps = 1
  MaxReqs = 1
  Devs = {}
CHECK_DEADLOCK FALSE
