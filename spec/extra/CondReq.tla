------------------------------ MODULE CondReq ------------------------------
(* X02 - generative model of a circuits.web request handler that uses the cache
   validator tools, shaped like the code (circuits/web/tools.py, errors.py,
   wrappers.py, http.py):

     CallEtags   validate_etags(): status 2xx only; If-Match first (412), then
                 If-None-Match (304 for GET / HEAD, else 412); with autotags the MD5
                 tag of the body is set first;
     CallSince   validate_since(): only with a Last-Modified; If-Unmodified-Since
                 first (412), then If-Modified-Since (304 / 412);
     CallFile    serve_file(): sets Last-Modified from the file, validate_since(),
                 then the file as a 200;
     NotModified / PreconditionFailed / Proceed / Crash   what the returned value
                 makes of the response (errors.redirect(.., 304), errors.httperror
                 412, the handler's body, an exception => 500), as the Response
                 object shows it (fe "direct") or as Response.prepare() and
                 HTTP._on_response put it on the wire (fe "http");
     CallExpires expires();  CallGzip  gzip().

   The environment's choice is the case (hist): TLC enumerates all of them
   (Part "cond": Skeletons, then Headers; Part "misc": ExpCases and GzipCases).
   Every step emits the lines the instrumented handler emits and runs them
   through the monitor of CondReqOps; Conforms says the monitor never flags the
   model.

   Defects is the set of behaviours of the pinned tree that differ from the
   statement; Defects = {} is the intended algorithm (the proposed repairs).
   Each is a generator, never an oracle:
     "elements_parser" If-Match / If-None-Match are cut up by Headers.elements():
                       a tag with "," or ";" inside never matches; "*" is only
                       honoured when it is alone; ( *, "a" ) is a list with "a" in it
     "im_string"       If-Match compares the spelling: W/"a" matches W/"a"
     "nm_string"       If-None-Match compares the spelling: W/"a" does not match "a"
     "ius_string"      If-Unmodified-Since must be spelled exactly like
                       Last-Modified, else 412 (later date, other format, garbage)
     "no_precedence"   validate_since() looks at the dates although If-Match /
                       If-None-Match is there
     "ius_after_inm"   a failing If-Unmodified-Since is only seen by validate_since(),
                       after validate_etags() has answered 304 for If-None-Match
     "ims_unsafe"      If-Modified-Since == Last-Modified on PUT / POST / DELETE: 412
     "ims_exact"       If-Modified-Since is honoured only when spelled like
                       Last-Modified (deviation ExactMatchOnly, tolerated by S1)
     "autotags_crash"  validate_etags(autotags=True) calls Response.collapse_body(),
                       which does not exist
     "prepare304"      Response.prepare() gives a 304 the default Content-Type and
                       Content-Length: 0
     "leapday"         expires(secs=0) on 29 February: ValueError
     "gzip406"         gzip(): 406 whenever no listed coding is gzip / identity
   Deviations of the code that the statement tolerates are modelled always:
     NotModifiedStripsEntityHeaders (errors.redirect removes Expires,
     Last-Modified, Content-Type ... from a 304).                               *)
EXTENDS CondReqOps, FiniteSets, TLC

CONSTANTS Part,      \* "cond" | "misc" (expires and gzip)
          Size,      \* "quick" | "thorough" | "cov"
          Defects

VARIABLES phase, ret, P, bad, hist, out
vars == <<phase, ret, P, bad, hist, out>>

Emit(lines) == LET r == Run(P, lines, bad) IN P' = r[1] /\ bad' = r[2] /\ out' = out \o lines
D(x) == x \in Defects

-----------------------------------------------------------------------------
(* the cases *)
Methods == {"GET", "HEAD", "PUT", "POST", "DELETE"}
TS(k, a, b) == <<k, a, b>>
SpecsQuick == {TS("none", 0, 0), TS("star", 0, 0), TS("list", 1, 0), TS("list", 11, 0), TS("list", 2, 0),
               TS("list", 2, 1)}
SpecsFull == SpecsQuick \cup {TS("bare", 0, 0), TS("list", 12, 0), TS("list", 3, 0), TS("list", 4, 0), TS("list", 1, 2),
                              TS("list", 2, 11), TS("empty", 0, 0), TS("starlist", 0, 0)}
\* Size "cov" is a small sample of every block, only used to read TLC's action coverage
Methods1 == IF Size = "cov" THEN {"GET", "PUT"} ELSE Methods
Specs == CASE Size = "quick" -> SpecsQuick [] Size = "cov" -> {TS("none", 0, 0), TS("list", 1, 0)} [] OTHER -> SpecsFull
Ims == CASE Size = "quick" -> {"none", "early", "equal", "late", "bad"} [] Size = "cov" -> {"none", "equal"}
         [] OTHER -> {"none", "early", "equal", "late", "alt", "bad"}
Ius == IF Size = "cov" THEN {"none", "early"} ELSE {"none", "early", "equal", "late", "alt", "bad"}
Curs == CASE Size = "quick" -> {0, 1, 11} [] Size = "cov" -> {1} [] OTHER -> {0, 1, 11, 3, 4}

C(fe, prog, m, cur, lm, st, im, nm, ims, ius) ==
  [part |-> "cond", fe |-> fe, prog |-> prog, m |-> m, cur |-> cur, lm |-> lm, st |-> st,
   imk |-> im[1], im1 |-> im[2], im2 |-> im[3], nmk |-> nm[1], nm1 |-> nm[2], nm2 |-> nm[3], ims |-> ims, ius |-> ius]

None3 == TS("none", 0, 0)
Exotic == {None3, TS("list", 3, 0), TS("list", 4, 0), TS("bare", 0, 0), TS("empty", 0, 0), TS("starlist", 0, 0)}

(* The cases are built in two steps, so that TLC's workers share the work: a
   skeleton (block, front end, program, method, validators, status) is the initial
   state, Headers adds the four conditional header fields of the block. *)
Sk(blk, fe, prog, m, cur, lm, st) == [blk |-> blk, fe |-> fe, prog |-> prog, m |-> m, cur |-> cur, lm |-> lm, st |-> st]
Skeletons ==
  \* 1: the full product, with a Last-Modified
  {Sk(1, "direct", "tools", m, cur, 1, 200) : m \in Methods1, cur \in Curs}
  \* 2: without a Last-Modified the dates must not matter
  \cup {Sk(2, "direct", "tools", m, cur, 0, 200) : m \in Methods1, cur \in Curs}
  \* 3: tags with separators inside, field values that are no tag lists
  \cup {Sk(3, "direct", "tools", m, cur, 1, 200) : m \in {"GET", "PUT"}, cur \in {3, 4, 1}}
  \* 4: an answer that is not 200 without the preconditions
  \cup {Sk(4, fe, "tools", m, 1, 1, st) : fe \in {"direct", "http"}, m \in {"GET", "PUT"}, st \in {201, 404, 410}}
  \* 5: serve_file
  \cup {Sk(5, fe, "file", m, 0, 1, 200) : fe \in {"direct", "http"}, m \in Methods1}
  \* 6: autotags
  \cup {Sk(6, fe, "auto", m, cur, 1, 200) : fe \in {"direct", "http"}, m \in {"GET", "PUT"}, cur \in {0, 1}}
  \* 7: through the real HTTP component
  \cup {Sk(7, "http", "tools", m, cur, lm, 200) : m \in Methods1, cur \in IF Size = "cov" THEN {1} ELSE {0, 1, 11}, lm \in {0, 1}}

Pick(blk) ==      \* <<If-Match, If-None-Match, If-Modified-Since, If-Unmodified-Since>>
  CASE blk = 1 -> Specs \X Specs \X Ims \X Ius
    [] blk = 2 -> Specs \X Specs \X {"none", "equal"} \X {"none", "early"}
    [] blk = 3 -> Exotic \X Exotic \X {"none"} \X {"none"}
    [] blk = 4 -> {None3, TS("list", 1, 0), TS("list", 2, 0)} \X {None3, TS("list", 1, 0), TS("list", 2, 0)}
                  \X {"none", "equal"} \X {"none", "early"}
    [] blk = 5 -> {None3} \X {None3, TS("list", 1, 0)} \X Ims \X Ius
    [] blk = 6 -> {None3, TS("list", 5, 0), TS("list", 15, 0)} \X {None3, TS("list", 5, 0), TS("list", 15, 0), TS("list", 1, 0)}
                  \X {"none"} \X {"none"}
    [] blk = 7 -> {None3, TS("star", 0, 0), TS("list", 1, 0)} \X {None3, TS("star", 0, 0), TS("list", 1, 0), TS("list", 11, 0)}
                  \X {"none", "equal", "early"} \X {"none", "early", "late"}

ExpCases ==
  {[part |-> "exp", secs |-> s, force |-> f, proto |-> p, ind |-> i, pragma |-> pr, cc |-> cc, day |-> d] :
     s \in {"zero", "tdzero", "pos", "td"}, f \in BOOLEAN, p \in {10, 11}, i \in {"none", "etag", "lm", "age", "expires"},
     pr \in BOOLEAN, cc \in BOOLEAN, d \in {"normal", "leap"}}

GzipCases ==
  {[part |-> "gzip", ae |-> a, ct |-> t, body |-> b, vary |-> v, clen |-> l] :
     a \in {"none", "gzip", "xgzip", "brgzip", "gzipq0", "identity", "idgzip", "gzipid", "idq0gzip", "idq0", "deflate", "star"},
     t \in {"html", "plain", "none", "png"}, b \in BOOLEAN, v \in {"none", "other", "ae"}, l \in BOOLEAN}


-----------------------------------------------------------------------------
(* circuits/web/tools.py validate_etags *)
Cat(s, t) == s \o t
In(x, s) == \E i \in 1..Len(s) : s[i] = x

\* Headers.elements(): the field value split at "," and ";" - codes 100 = "*",
\* 101 = a, 103.. = pieces of a tag that was cut up
Pieces(t) == IF t = 0 THEN <<>> ELSE IF Opaque(t) = 3 THEN <<103>> ELSE IF Opaque(t) = 4 THEN <<104, 105>> ELSE <<t>>
Elements(k, a, b) ==
  CASE k = "star" -> <<100>>
    [] k = "list" -> Cat(Pieces(a), Pieces(b))
    [] k = "bare" -> <<101>>
    [] k = "starlist" -> <<100, 1>>
    [] OTHER -> <<>>                         \* absent, or present and empty
\* the tag-list parser of the repair: "*" | list of tags | not a field value
Parsed(k, a, b) ==
  CASE k = "star" -> <<100>>
    [] k = "list" -> Cat(IF a = 0 THEN <<>> ELSE <<a>>, IF b = 0 THEN <<>> ELSE <<b>>)
    [] OTHER -> <<>>
Conditions(k, a, b) == IF D("elements_parser") THEN Elements(k, a, b) ELSE Parsed(k, a, b)
Present(k) == k \notin {"none", "empty"}

EqIM(cur, t) == IF D("im_string") THEN cur # 0 /\ cur = t ELSE t < 100 /\ StrongEq(cur, t)
EqNM(cur, t) == IF D("nm_string") THEN cur # 0 /\ cur = t ELSE t < 100 /\ WeakEq(cur, t)
AnyIM(cur, s) == \E i \in 1..Len(s) : EqIM(cur, s[i])
AnyNM(cur, s) == \E i \in 1..Len(s) : EqNM(cur, s[i])

IusFails(c) == IF D("ius_string") THEN c.ius # "equal" ELSE c.ius = "early"

ValidateEtags(c) ==       \* -> 0 (None) | 304 | 412 | 500 (raises)
  LET auto == c.prog = "auto" /\ c.cur = 0 /\ c.st = 200
      cur == IF auto THEN 5 ELSE c.cur
      im == Conditions(c.imk, c.im1, c.im2)
      nm == Conditions(c.nmk, c.nm1, c.nm2)
  IN
  IF auto /\ D("autotags_crash") THEN 500
  ELSE IF ~Is2xx(c.st) THEN 0
  ELSE IF Present(c.imk) /\ ~(im = <<100>> \/ AnyIM(cur, im)) THEN 412
  \* RFC 7232 section 6 step 2 comes before If-None-Match (the repair looks at the date here too)
  ELSE IF ~D("ius_after_inm") /\ ~Present(c.imk) /\ c.lm # 0 /\ c.ius # "none" /\ IusFails(c) THEN 412
  ELSE IF Present(c.nmk) /\ (nm = <<100>> \/ AnyNM(cur, nm)) THEN FailCode(c)
  ELSE 0

(* circuits/web/tools.py validate_since *)
ImsHits(c) == IF D("ims_exact") THEN c.ims = "equal" ELSE c.ims \in {"equal", "late", "alt"}
ValidateSince(c) ==
  IF c.lm = 0 THEN 0
  ELSE IF c.ius # "none" /\ (D("no_precedence") \/ ~Present(c.imk)) /\ IusFails(c) /\ (Is2xx(c.st) \/ c.st = 412) THEN 412
  ELSE IF c.ims # "none" /\ (D("no_precedence") \/ ~Present(c.nmk)) /\ ImsHits(c) /\ (Is2xx(c.st) \/ c.st = 304)
       THEN (IF c.m \in Safe THEN 304 ELSE IF D("ims_unsafe") THEN 412 ELSE 0)
  ELSE 0

-----------------------------------------------------------------------------
(* the handler *)
Cond == Part = "cond"

Headers ==
  /\ Cond /\ phase = "build"
  /\ \E h \in Pick(hist.blk) :
       /\ hist' = C(hist.fe, hist.prog, hist.m, hist.cur, hist.lm, hist.st, h[1], h[2], h[3], h[4])
       /\ P' = P0(hist')
  /\ phase' = "handler"
  /\ UNCHANGED <<ret, bad, out>>

CallEtags ==
  /\ Cond /\ phase = "handler" /\ hist.prog \in {"tools", "auto"}
  /\ LET r == ValidateEtags(hist) IN
     /\ ret' = r
     /\ phase' = IF r = 0 THEN "since" ELSE "answer"
     /\ Emit(<<RetLine("etags", r, IF r = 500 THEN "AttributeError" ELSE "")>>)
  /\ UNCHANGED hist

CallSince ==
  /\ Cond /\ phase = "since"
  /\ LET r == ValidateSince(hist) IN
     /\ ret' = r /\ phase' = "answer"
     /\ Emit(<<RetLine("since", r, "")>>)
  /\ UNCHANGED hist

CallFile ==
  /\ Cond /\ phase = "handler" /\ hist.prog = "file"
  /\ LET r == ValidateSince(hist) IN
     /\ ret' = r /\ phase' = "answer"
     /\ Emit(<<RetLine("file", r, "")>>)
  /\ UNCHANGED hist

\* what the handler had put into the response before it called the tools
HEtag == IF hist.prog = "auto" THEN (hist.cur # 0 \/ (hist.st = 200 /\ ~D("autotags_crash"))) ELSE hist.cur # 0
HLm == hist.lm # 0
HRep == hist.prog # "file"
Wire == hist.fe = "http"

(* errors.redirect(request, response, [], code=304): deviation
   NotModifiedStripsEntityHeaders - Expires, Last-Modified, Content-Type (and
   Content-Length, Content-Location ...) are deleted, the body is emptied *)
NotModified ==
  /\ Cond /\ phase = "answer" /\ ret = 304
  /\ phase' = "done"
  /\ Emit(<<RespLine(304, "none", HEtag, FALSE, FALSE, HRep, HRep,
                     IF Wire /\ D("prepare304") THEN "default" ELSE "none",
                     IF Wire /\ D("prepare304") THEN "zero" ELSE "none")>>)
  /\ UNCHANGED <<hist, ret>>

(* errors.httperror(request, response, 412): status and close flag; HTTP renders
   the error page into the body *)
PreconditionFailed ==
  /\ Cond /\ phase = "answer" /\ ret = 412
  /\ phase' = "done"
  /\ Emit(<<RespLine(412, IF Wire /\ hist.m = "HEAD" THEN "none" ELSE "page", HEtag, HLm, HRep, HRep, HRep,
                     IF HRep THEN "own" ELSE IF Wire THEN "default" ELSE "none",
                     IF Wire THEN "other" ELSE "none")>>)
  /\ UNCHANGED <<hist, ret>>

(* a tool raised: HTTP answers 500 with its error page *)
Crash ==
  /\ Cond /\ phase = "answer" /\ ret = 500
  /\ phase' = "done"
  /\ Emit(<<RespLine(500, IF Wire /\ hist.m = "HEAD" THEN "none" ELSE "page", HEtag, HLm, HRep, HRep, HRep,
                     IF HRep THEN "own" ELSE IF Wire THEN "default" ELSE "none",
                     IF Wire THEN "other" ELSE "none")>>)
  /\ UNCHANGED <<hist, ret>>

(* the handler's own answer (serve_file: the file, with its length) *)
Proceed ==
  /\ Cond /\ phase = "answer" /\ ret = 0
  /\ phase' = "done"
  /\ Emit(<<RespLine(hist.st, IF Wire /\ hist.m = "HEAD" THEN "none" ELSE "own", HEtag, HLm, HRep, HRep, HRep, "own",
                     IF Wire \/ hist.prog = "file" THEN "full" ELSE "none")>>)
  /\ UNCHANGED <<hist, ret>>

-----------------------------------------------------------------------------
(* circuits/web/tools.py expires *)
CallExpires ==
  /\ ~Cond /\ hist.part = "exp" /\ phase = "handler"
  /\ phase' = "done"
  /\ UNCHANGED <<hist, ret>>
  /\ LET c == hist
         cacheable == ~c.force /\ c.ind # "none"
         zero == c.secs \in {"zero", "tdzero"}
         p0 == IF c.pragma THEN "kept" ELSE "none"
         c0 == IF c.cc THEN "kept" ELSE "none"
         e0 == IF c.ind = "expires" THEN "kept" ELSE "none"
         p1 == IF c.force \/ ~c.pragma THEN "nocache" ELSE "kept"
         c1 == IF c.proto = 11 /\ (c.force \/ ~c.cc) THEN "nocache" ELSE c0
     IN
     IF cacheable THEN Emit(<<XresLine("", p0, c0, e0, 0)>>)
     ELSE IF zero THEN
          (IF c.day = "leap" /\ D("leapday") THEN Emit(<<XresLine("ValueError", p1, c1, e0, 0)>>)
           ELSE Emit(<<XresLine("", p1, c1, "past", 365)>>))
     ELSE Emit(<<XresLine("", p0, c0, "future", 60)>>)

(* circuits/web/tools.py gzip: the codings in the order Headers.elements() gives
   (q descending, then spelling descending), <<name, q is zero>> *)
Codings(ae) ==
  CASE ae = "gzip" -> <<<<"gzip", FALSE>>>>
    [] ae = "xgzip" -> <<<<"x-gzip", FALSE>>>>
    [] ae = "brgzip" -> <<<<"gzip", FALSE>>, <<"br", FALSE>>>>
    [] ae = "gzipq0" -> <<<<"gzip", TRUE>>>>
    [] ae = "identity" -> <<<<"identity", FALSE>>>>
    [] ae = "idgzip" -> <<<<"identity", FALSE>>, <<"gzip", FALSE>>>>
    [] ae = "gzipid" -> <<<<"gzip", FALSE>>, <<"identity", FALSE>>>>
    [] ae = "idq0gzip" -> <<<<"gzip", FALSE>>, <<"identity", TRUE>>>>
    [] ae = "idq0" -> <<<<"identity", TRUE>>>>
    [] ae = "deflate" -> <<<<"deflate", FALSE>>>>
    [] ae = "star" -> <<<<"*", FALSE>>>>
    [] OTHER -> <<>>

RECURSIVE Walk(_, _, _)
Walk(s, mime, all) ==
  IF s = <<>> THEN
       (IF D("gzip406") \/ (\E i \in 1..Len(all) : all[i][1] \in {"identity", "*"} /\ all[i][2]) THEN "406" ELSE "same")
  ELSE LET h == Head(s) IN
       IF h[1] = "identity" /\ ~h[2] THEN "same"
       ELSE IF h[1] \in {"gzip", "x-gzip"} THEN (IF h[2] THEN "same" ELSE IF mime THEN "gz" ELSE "same")
       ELSE Walk(Tail(s), mime, all)

CallGzip ==
  /\ ~Cond /\ hist.part = "gzip" /\ phase = "handler"
  /\ phase' = "done"
  /\ UNCHANGED <<hist, ret>>
  /\ LET c == hist
         v0 == IF c.vary = "none" THEN "none" ELSE IF c.vary = "ae" THEN "ae" ELSE "plain"
         l0 == IF ~c.clen THEN "none" ELSE IF c.body THEN "full" ELSE "zero"
         b0 == IF c.body THEN "own" ELSE "none"
         r == IF ~c.body \/ c.ae = "none" THEN "same" ELSE Walk(Codings(c.ae), c.ct \in {"html", "plain", "none"}, Codings(c.ae))
     IN
     CASE r = "gz" -> Emit(<<GresLine(0, "", "gz", "gzip", "ae", "none")>>)
       [] r = "406" -> Emit(<<GresLine(406, "", "none", "none", v0, l0)>>)
       [] OTHER -> Emit(<<GresLine(0, "", b0, "none", v0, l0)>>)

-----------------------------------------------------------------------------
Init == /\ IF Cond THEN hist \in Skeletons /\ phase = "build"
           ELSE (hist \in ExpCases \/ hist \in GzipCases) /\ phase = "handler"
        /\ ret = 0 /\ P = P0(hist) /\ bad = "" /\ out = <<>>

Next == Headers \/ CallEtags \/ CallSince \/ CallFile \/ NotModified \/ PreconditionFailed \/ Crash \/ Proceed
        \/ CallExpires \/ CallGzip

Spec == Init /\ [][Next]_vars

-----------------------------------------------------------------------------
TypeOK == phase \in {"build", "handler", "since", "answer", "done"} /\ ret \in {0, 304, 412, 500} /\ bad \in STRING

(* X02 as the monitor's verdict on every case of the model *)
Conforms == bad = ""

(* stated directly on the model (independent of the monitor's bookkeeping): an
   unsafe method never ends in 304, and is never performed when If-Match names
   only other tags *)
NeverUnsafe304 == (Cond /\ phase = "done" /\ hist.m \notin Safe) => out[Len(out)].code # 304
IfMatchGuards ==
  (Cond /\ phase = "done" /\ Is2xx(hist.st) /\ hist.imk = "list" /\ hist.prog = "tools"
     /\ Opaque(hist.im1) # Opaque(hist.cur) /\ (hist.im2 = 0 \/ Opaque(hist.im2) # Opaque(hist.cur)))
  => out[Len(out)].code = 412

(* the cases with what the model says about them, for the replay *)
LineT(l) == <<l.k, l.tool, l.code, l.exc, l.body, l.hetag, l.hlm, l.hexp, l.hcc, l.hvary, l.hct, l.hcl, l.xp, l.xc, l.xe, l.xd>>
CaseT(h) == CASE h.part = "cond" -> <<h.part, h.fe, h.prog, h.m, h.cur, h.lm, h.st, h.imk, h.im1, h.im2, h.nmk, h.nm1, h.nm2, h.ims, h.ius>>
              [] h.part = "exp" -> <<h.part, h.secs, h.force, h.proto, h.ind, h.pragma, h.cc, h.day>>
              [] h.part = "gzip" -> <<h.part, h.ae, h.ct, h.body, h.vary, h.clen>>
Export == phase = "done" => PrintT(ToString(<<"CASE", CaseT(hist), [i \in 1..Len(out) |-> LineT(out[i])], bad>>))
=============================================================================
