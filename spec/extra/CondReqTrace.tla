-------------------------- MODULE CondReqTrace --------------------------
(* X02 - trace specification: judges what the real circuits.web tools
   (validate_etags, validate_since, serve_file, expires, gzip; the httperror /
   redirect objects; Response as sent by the real HTTP component) did, case by
   case, with the monitor of CondReqOps - the same operators the generative model
   CondReq.tla is checked against.  A trace is [cfg |-> case, lines |-> <<..>>];
   one initial state per trace; one step per line; total verdict.             *)
EXTENDS CondReqOps, Json, IOUtils, TLC

Traces == JsonDeserialize(IOEnv.TRACE_FILE)

VARIABLES tid, l, P, bad, badline
vars == <<tid, l, P, bad, badline>>

Init == /\ tid \in 1..Len(Traces) /\ l = 1 /\ P = P0(Traces[tid].cfg) /\ bad = "" /\ badline = 0

Next == /\ l <= Len(Traces[tid].lines)
        /\ LET ln == Traces[tid].lines[l]
               f  == Fail(P, ln)
           IN /\ bad' = IF bad = "" THEN f ELSE bad
              /\ badline' = IF bad = "" /\ f # "" THEN l ELSE badline
              /\ P' = Apply(P, ln)
        /\ l' = l + 1
        /\ UNCHANGED tid

Spec == Init /\ [][Next]_vars

(* a trace that stops before its answer line is incomplete *)
Verdict == IF bad = "" /\ ~P.done THEN "X02.trace_shape" ELSE bad

(* reported once per trace, when its last line has been consumed *)
Report == (l = Len(Traces[tid].lines) + 1) => PrintT(<<"VERDICT", tid, Verdict, badline>>)
=============================================================================
