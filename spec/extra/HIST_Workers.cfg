SPECIFICATION Spec
CONSTANTS
  NT = 2
  MaxSteps = 7
  Modes = {"fire", "call"}
  Outcomes = {1, 4}
  Variants = {"intended", "pinned"}
  WithStop = TRUE
  WithUnreg = TRUE
  WithOther = TRUE
  SettleCap = 40
CHECK_DEADLOCK FALSE
