SPECIFICATION Spec
CONSTANTS
  Part = "misc"
  Size = "quick"
  Defects = {}
INVARIANT TypeOK
INVARIANT Conforms
INVARIANT Export
CHECK_DEADLOCK FALSE
