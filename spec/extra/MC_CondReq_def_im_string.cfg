SPECIFICATION Spec
CONSTANTS
  Part = "cond"
  Size = "quick"
  Defects = {"im_string"}
INVARIANT TypeOK
INVARIANT Conforms
CHECK_DEADLOCK FALSE
