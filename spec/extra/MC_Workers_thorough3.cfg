SPECIFICATION Spec
CONSTANTS
  MaxT = 3
  NT = 3
  MaxSteps = 100000
  Modes = {"fire", "call"}
  Outcomes = {1, 4}
  Variants = {"intended"}
  WithStop = TRUE
  WithUnreg = TRUE
  WithOther = FALSE
  KeepOut = FALSE
INVARIANT TypeOK
INVARIANT ConformsIntended
INVARIANT PinnedFailsOnlyUnreg
INVARIANT SubmittedOnce
INVARIANT PoolAfterStart
INVARIANT HandOverFromReady
INVARIANT ClosedMeansDone
INVARIANT AllOver
VIEW View
CHECK_DEADLOCK FALSE
