SPECIFICATION Spec
CONSTANTS
  NT = 3
  MaxSteps = 40
  Modes = {"fire", "call"}
  Outcomes = {1, 3, 4}
  Variants = {"intended", "pinned"}
  WithStop = TRUE
  WithUnreg = TRUE
  WithOther = TRUE
  SettleCap = 40
CHECK_DEADLOCK FALSE
