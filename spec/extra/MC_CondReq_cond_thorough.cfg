SPECIFICATION Spec
CONSTANTS
  Part = "cond"
  Size = "thorough"
  Defects = {}
INVARIANT TypeOK
INVARIANT Conforms
INVARIANT NeverUnsafe304
INVARIANT IfMatchGuards
INVARIANT Export
CHECK_DEADLOCK FALSE
