SPECIFICATION Spec
CONSTANTS
  Part = "misc"
  Size = "quick"
  Defects = {"gzip406"}
INVARIANT TypeOK
INVARIANT Conforms
CHECK_DEADLOCK FALSE
