SPECIFICATION Spec
CONSTANTS
  Part = "gzip"
  Size = "quick"
  Defects = {"gzip406"}
INVARIANT TypeOK
INVARIANT Conforms
CHECK_DEADLOCK FALSE
