SPECIFICATION SpecC
CONSTANTS
  MaxT = 8
  NT = 8
  MaxSteps = 100000
  Modes = {"fire", "call"}
  Outcomes = {1, 2, 3, 4}
  Variants = {"intended", "pinned"}
  WithStop = TRUE
  WithUnreg = TRUE
  WithOther = TRUE
  KeepOut = TRUE
INVARIANT Report
CHECK_DEADLOCK FALSE
