SPECIFICATION Spec
CONSTANTS
  RootTpls = {"root", "var", "idx2"}
  ATpls = {"none", "root", "base"}
  ABTpls = {"none", "base"}
  Segs = {"a", "b", "h", "_p", "t.txt", "prepare_unregister_complete"}
  MaxLen = 2
  Methods = {"GET"}
  Queries = {"none", "z"}
  Bodies = {"none"}
  TSs = {FALSE, TRUE}
  NCs = {"", "dslash", "dot", "pct"}
  Dynamic = FALSE
  MaxSteps = 1
  MaxReqs = 1
  Devs = {}
CHECK_DEADLOCK FALSE
