SPECIFICATION Spec
CONSTANTS
  Part = "cond"
  Size = "quick"
  Defects = {"elements_parser"}
INVARIANT TypeOK
INVARIANT Conforms
CHECK_DEADLOCK FALSE
