SPECIFICATION Spec
CONSTANTS
  RootTpls = {"none", "root", "var", "idx2"}
  ATpls = {"none", "var", "meth", "idx2", "base"}
  ABTpls = {"none", "root", "meth", "base"}
  Segs = {"a", "b", "f", "x", "index", "ev"}
  MaxLen = 3
  Methods = {"GET", "POST"}
  Queries = {"none", "p1"}
  Bodies = {"none", "p1"}
  TSs = {FALSE}
  NCs = {""}
  Dynamic = FALSE
  MaxSteps = 6
  MaxReqs = 6
  Devs = {}
INVARIANT TypeOK
INVARIANT Conforms
INVARIANT Direct
VIEW View
CHECK_DEADLOCK FALSE
