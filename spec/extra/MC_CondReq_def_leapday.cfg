SPECIFICATION Spec
CONSTANTS
  Part = "misc"
  Size = "quick"
  Defects = {"leapday"}
INVARIANT TypeOK
INVARIANT Conforms
CHECK_DEADLOCK FALSE
