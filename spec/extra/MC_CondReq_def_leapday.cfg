SPECIFICATION Spec
CONSTANTS
  Part = "exp"
  Size = "quick"
  Defects = {"leapday"}
INVARIANT TypeOK
INVARIANT Conforms
CHECK_DEADLOCK FALSE
