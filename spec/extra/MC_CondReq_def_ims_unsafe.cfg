SPECIFICATION Spec
CONSTANTS
  Part = "cond"
  Size = "quick"
  Defects = {"ims_unsafe"}
INVARIANT TypeOK
INVARIANT Conforms
CHECK_DEADLOCK FALSE
