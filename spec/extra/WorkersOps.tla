----------------------------- MODULE WorkersOps -----------------------------
(* X03 - circuits.core.workers (Worker, task): the statement, as a monitor over
   trace lines.  (The statement is ours - extras/X03.md - derived from the
   module's docstrings, its tests and its code.)

   A trace line is a record [k, t, v, r]  (t = task id 1..MaxT, 0 = none):

     k="fire"     the application fires task t (r = "fire": plain fire();
                  r = "call": `x = yield self.call(task(..))` in a handler);
                  v = what the job does: 1 returns a value, 2 returns a falsy
                  value that is not None, 3 returns None, 4 raises
     k="taken"    the task event is dispatched; v = 1 iff the Worker is in the tree
     k="submit"   pool.apply_async(job of t); r = "rejected": the pool refused
                  (closed), apply_async raised
     k="exec"     the job of t starts to run in the pool
     k="ready"    the pool's result for t becomes ready
     k="poll"     the Worker's handler asked result.ready() (r = "wait": result.wait(timeout), which
                  returns by itself); v = the answer
     k="get"      the Worker's handler called result.get() / wait() without timeout; v = 1 iff the
                  result was ready (v = 0: the loop blocks on an unfinished job)
     k="value"    event.value of t was set (seen at the end of a tick); v = class
                  of the value: 1, 2 as above, 4 the job's own exception, 5 wrong
                  value, 6 several values, 7 some other exception; r = "ok" |
                  "err" (value.errors) | "multi"
     k="success"  task_success of t dispatched; v = class of the value it carries (1, 2, 3, 5 ..)
     k="failure"  task_failure of t dispatched; v = 4 | 7
     k="complete" task_complete of t dispatched
     k="resume"   the handler waiting in call() went on; v, r as for "value" (3 = None)
     k="tick"     Manager.tick() begins
     k="stop"     Manager.stop() is called;  k="stopped"  it has returned
     k="unreg"    Worker.unregister() is called; k="ounreg" some other component's
     k="unregistered"  dispatched; v = 1 for the Worker, 0 for the other component
     k="closed"   pool.close() (r = "terminate": pool.terminate());  k="joined" pool.join() returned
     k="quiet"    the driver has let the pool finish and ticked until nothing is
                  left to do (r = "unsettled": gave up); v = 1 iff the pool still accepts work

   Fail(P, ln) names the clause the line violates ("" if none), Apply(P, ln) is
   the next monitor state.  Clauses:

     X03.resubmitted            a task is handed to the pool a second time
     X03.ran_twice              its job starts a second time
     X03.ran_unsubmitted / X03.unfired    a job runs that was not submitted / fired
     X03.blocks_on_unfinished   the handler blocks the loop in get() / wait() on a result that is not ready
     X03.value_before_ready / X03.completion_before_ready / X03.resumed_before_ready
                                value set / success or failure announced / caller resumed before the job ended
     X03.announced_before_value task_success is dispatched while event.value does not hold the result yet
     X03.value_twice            event.value set more than once
     X03.notified_twice         more than one task_success / task_failure (or task_complete) for a task
     X03.resumed_twice
     X03.wrong_result           value, success, failure or resume do not carry what the job returned / raised
                                (a job that raises must end in task_failure with the job's exception, never in
                                task_success; a task refused by a closed pool in task_failure with that refusal)
     X03.pool_closed_early      the pool is shut down although neither stop() nor the Worker's unregister() was called
     X03.pool_not_shut_down     stop() has returned / the Worker is unregistered and the run is over, and the pool
                                has not been closed and joined
     X03.result_lost_at_stop    stop() has returned and a task fired before has not been announced (run once, value
                                set, task_success / task_failure dispatched)
     X03.lost_task, X03.value_not_set, X03.caller_not_resumed
                                at quiescence: a fired task was never announced / its value is not set / the
                                handler that called it was never resumed
   (X03.malformed: the trace itself is inconsistent - a harness error.)

   Out of scope (no obligation, no judgement): a task fired after unregister() of the Worker was called, or
   dispatched when the Worker was no longer in the tree.                                                     *)
EXTENDS Integers, Sequences

CONSTANT MaxT       \* task ids are 1..MaxT

T0 == [exp |-> 0, mode |-> "", oos |-> FALSE, taken |-> 0, sub |-> 0, rej |-> 0,
       ex |-> 0, rdy |-> 0, val |-> 0, note |-> 0, res |-> 0, comp |-> 0]

P0 == [ts |-> [i \in 1..MaxT |-> T0],
       closed |-> FALSE, joined |-> FALSE, stopreq |-> FALSE, unreq |-> FALSE, unregd |-> FALSE]

Ln(k, t, v, r) == [k |-> k, t |-> t, v |-> v, r |-> r]

TaskKinds == {"fire", "taken", "submit", "poll", "get", "exec", "ready", "value",
              "success", "failure", "resume", "complete"}

(* does a value / resume line carry what the job of T produced? *)
Carries(T, v, r, noneOK) ==
  IF r = "ok" THEN T.rej = 0 /\ v = T.exp /\ (T.exp \in {1, 2} \/ (noneOK /\ T.exp = 3))
  ELSE IF r = "err" THEN (T.rej = 0 /\ T.exp = 4 /\ v = 4) \/ (T.rej = 1 /\ v = 7)
  ELSE FALSE

TaskFail(P, T, ln) ==
  CASE ln.k = "submit" ->
         IF ln.r = "rejected" THEN ""
         ELSE IF T.sub >= 1 THEN "X03.resubmitted" ELSE ""
    [] ln.k = "exec" ->
         IF T.sub = 0 THEN "X03.ran_unsubmitted"
         ELSE IF T.ex >= 1 THEN "X03.ran_twice" ELSE ""
    [] ln.k = "get" -> IF ln.v = 0 THEN "X03.blocks_on_unfinished" ELSE ""
    [] ln.k = "value" ->
         IF ln.r = "multi" \/ T.val >= 1 THEN "X03.value_twice"
         ELSE IF T.rej = 0 /\ T.rdy = 0 THEN "X03.value_before_ready"
         ELSE IF ~Carries(T, ln.v, ln.r, FALSE) THEN "X03.wrong_result"
         ELSE ""
    [] ln.k = "success" ->
         IF T.note >= 1 THEN "X03.notified_twice"
         ELSE IF T.rdy = 0 THEN "X03.completion_before_ready"
         ELSE IF T.exp = 4 \/ ln.v # T.exp THEN "X03.wrong_result"
         ELSE IF T.exp \in {1, 2} /\ T.val = 0 THEN "X03.announced_before_value"
         ELSE ""
    [] ln.k = "failure" ->
         IF T.note >= 1 THEN "X03.notified_twice"
         ELSE IF T.rej = 1 THEN (IF ln.v # 7 THEN "X03.wrong_result" ELSE "")
         ELSE IF T.rdy = 0 THEN "X03.completion_before_ready"
         ELSE IF T.exp # 4 \/ ln.v # 4 THEN "X03.wrong_result"
         ELSE ""
    [] ln.k = "resume" ->
         IF T.mode # "call" THEN "X03.malformed"
         ELSE IF T.res >= 1 THEN "X03.resumed_twice"
         ELSE IF T.rej = 0 /\ T.rdy = 0 THEN "X03.resumed_before_ready"
         ELSE IF ~Carries(T, ln.v, ln.r, TRUE) THEN "X03.wrong_result"
         ELSE ""
    [] ln.k = "complete" ->
         IF T.comp >= 1 THEN "X03.notified_twice"
         ELSE IF T.rej = 0 /\ T.rdy = 0 THEN "X03.completion_before_ready"
         ELSE ""
    [] OTHER -> ""

InScope(T) == T.exp # 0 /\ ~T.oos

(* what stop() owes a task fired before it returned *)
OwedAtStop(T) == InScope(T) /\ (\/ T.note = 0
                                \/ (T.rej = 0 /\ T.ex # 1)
                                \/ (T.exp \in {1, 2, 4} /\ T.val = 0))

QuietFail(P, ln) ==
  IF \E i \in 1..MaxT : InScope(P.ts[i]) /\ (P.ts[i].note = 0 \/ (P.ts[i].rej = 0 /\ P.ts[i].ex = 0))
    THEN "X03.lost_task"
  ELSE IF \E i \in 1..MaxT : InScope(P.ts[i]) /\ P.ts[i].exp \in {1, 2, 4} /\ P.ts[i].val = 0
    THEN "X03.value_not_set"
  ELSE IF \E i \in 1..MaxT : InScope(P.ts[i]) /\ P.ts[i].mode = "call" /\ P.ts[i].res = 0
    THEN "X03.caller_not_resumed"
  ELSE IF ln.r = "unsettled" THEN "X03.lost_task"
  ELSE IF (P.stopreq \/ P.unregd) /\ (ln.v = 1 \/ ~P.closed) THEN "X03.pool_not_shut_down"
  ELSE ""

GlobalFail(P, ln) ==
  CASE ln.k = "closed" ->
         IF ~P.stopreq /\ ~P.unreq THEN "X03.pool_closed_early" ELSE ""
    [] ln.k = "stopped" ->
         IF ~P.closed \/ ~P.joined THEN "X03.pool_not_shut_down"
         ELSE IF \E i \in 1..MaxT : OwedAtStop(P.ts[i]) THEN "X03.result_lost_at_stop"
         ELSE ""
    [] ln.k = "quiet" -> QuietFail(P, ln)
    [] OTHER -> ""

Fail(P, ln) ==
  IF ln.k \in TaskKinds THEN
    IF ln.t \notin 1..MaxT THEN (IF ln.k = "fire" THEN "X03.malformed" ELSE "X03.unfired")
    ELSE LET T == P.ts[ln.t] IN
      IF ln.k = "fire"
      THEN (IF T.exp # 0 \/ ln.v \notin 1..4 \/ ln.r \notin {"fire", "call"} THEN "X03.malformed" ELSE "")
      ELSE IF T.exp = 0 THEN "X03.unfired"
      ELSE IF T.oos THEN ""
      ELSE TaskFail(P, T, ln)
  ELSE GlobalFail(P, ln)

ApplyTask(P, ln) ==
  LET t == ln.t IN
  CASE ln.k = "fire" -> [P EXCEPT !.ts[t] = [@ EXCEPT !.exp = ln.v, !.mode = ln.r, !.oos = P.unreq]]
    [] ln.k = "taken" -> [P EXCEPT !.ts[t] = [@ EXCEPT !.taken = 1, !.oos = @ \/ ln.v = 0]]
    [] ln.k = "submit" -> IF ln.r = "rejected" THEN [P EXCEPT !.ts[t].rej = 1]
                          ELSE [P EXCEPT !.ts[t].sub = @ + 1]
    [] ln.k = "exec" -> [P EXCEPT !.ts[t].ex = @ + 1]
    [] ln.k = "ready" -> [P EXCEPT !.ts[t].rdy = 1]
    [] ln.k = "value" -> [P EXCEPT !.ts[t].val = @ + 1]
    [] ln.k = "success" -> [P EXCEPT !.ts[t].note = @ + 1]
    [] ln.k = "failure" -> [P EXCEPT !.ts[t].note = @ + 1]
    [] ln.k = "resume" -> [P EXCEPT !.ts[t].res = @ + 1]
    [] ln.k = "complete" -> [P EXCEPT !.ts[t].comp = @ + 1]
    [] OTHER -> P

Apply(P, ln) ==
  IF ln.k \in TaskKinds THEN (IF ln.t \in 1..MaxT THEN ApplyTask(P, ln) ELSE P)
  ELSE CASE ln.k = "closed" -> [P EXCEPT !.closed = TRUE]
         [] ln.k = "joined" -> [P EXCEPT !.joined = TRUE]
         [] ln.k = "stop" -> [P EXCEPT !.stopreq = TRUE]
         [] ln.k = "unreg" -> [P EXCEPT !.unreq = TRUE]
         [] ln.k = "unregistered" -> IF ln.v = 1 THEN [P EXCEPT !.unregd = TRUE] ELSE P
         [] OTHER -> P

(* fold lines through the monitor: <<P', first failed clause>> *)
RECURSIVE Run(_, _, _)
Run(P, lines, badSoFar) ==
  IF lines = <<>> THEN <<P, badSoFar>>
  ELSE LET ln == Head(lines)
           f  == IF badSoFar = "" THEN Fail(P, ln) ELSE badSoFar
       IN Run(Apply(P, ln), Tail(lines), f)
=============================================================================
