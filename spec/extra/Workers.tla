------------------------------ MODULE Workers ------------------------------
(* X03 - generative, implementation-shaped model of circuits.core.workers under
   a Manager that is ticked step by step.

   Three parties:
     * the application (environment): fires task events - plain fire() or
       `x = yield self.call(task(..))` inside a generator handler -, calls
       Manager.stop(), Worker.unregister(), unregisters some other component;
     * the main loop: one action per Manager.tick(), the unit in which the loop
       thread touches the state it shares with the pool (AsyncResult.ready()):
       first every registered generator task is stepped once
       (Manager.processTask: Worker._on_task's `apply_async`, `while not
       result.ready(): yield`, `yield result.get()`; the caller's generator),
       then the batch of queued events is dispatched (Manager._flush:
       `task` -> the Worker's handler is registered as a task; `task_success`
       / `task_failure` / `task_done`; `stopped` -> `pool.close(); pool.join()`;
       the three events of an unregistration);
     * the pool: Exec(t) - a pool thread takes a submitted job and runs it -,
       Publish(t) - its result becomes ready.

   A pool step that falls inside a tick is equivalent to the same step before
   or after that tick (a tick reads each result's `ready()` at one point and
   tasks do not share state), so ticks are atomic here.

   Every step emits the trace lines the instrumented real code emits
   (harness/drivers/x03_world.py); the monitor of WorkersOps judges them
   (`Conforms`).  `hist` = the environment's choices (what a replay drives),
   `out` = the lines.

   variant (chosen in the initial state among `Variants`):
     "intended"  the Worker shuts its pool down on `stopped` and when it is being
                 unregistered (prepare_unregister of itself)
     "pinned"    the code as it is: the handler listens to `unregistered`, which is
                 dispatched after the Worker has left the tree: it never runs
   broken algorithms - TLC must find the violation (teeth; generators, never oracles):
     "noloop"    `if not result.ready(): yield` instead of `while`: get() on an unfinished job
     "resubmit"  apply_async inside the polling loop
     "nojoin"    close() without join()
     "terminate" terminate() instead of close()
     "anyunreg"  the pool is shut down when any component is unregistered            *)
EXTENDS WorkersOps, Naturals, TLC

CONSTANTS NT,         \* number of tasks the application may fire (<= MaxT)
          MaxSteps,   \* bound on the length of the environment history
          Modes,      \* subset of {"fire", "call"}
          Outcomes,   \* subset of 1..4
          Variants,   \* variants the initial state chooses from
          WithStop, WithUnreg, WithOther,   \* BOOLEAN: which environment actions exist
          KeepOut     \* BOOLEAN: keep the emitted lines in `out` (off in the exhaustive run: smaller states)

VARIABLES st,       \* the system (record, see Init)
          variant,
          P, bad,   \* monitor state, first failed clause
          hist, out

vars == <<st, variant, P, bad, hist, out>>

TS == 1..NT
Ev(e, t, v) == [e |-> e, t |-> t, v |-> v]

Init ==
  /\ st = [ws |-> [t \in TS |-> "idle"],    \* Worker side of task t: idle | q (event queued) | reg (handler registered,
                                             \*   not started) | poll1 | poll | got (value yielded) | fin
           cs |-> [t \in TS |-> "none"],    \* caller side (call mode): none | goq | goreg | wait | waitreg | resumed | end
           md |-> [t \in TS |-> ""],
           ex |-> [t \in TS |-> 0],
           pl |-> [t \in TS |-> "none"],    \* in the pool: none | queued | execd | ready | dropped
           pq |-> <<>>,                     \* submission order
           closed |-> FALSE, term |-> FALSE,
           q |-> <<>>,                      \* the manager's event queue
           det |-> FALSE,                   \* the Worker has left the tree
           sreq |-> FALSE, ureq |-> FALSE, oreq |-> FALSE,
           fired |-> 0,
           nv |-> <<>>,                     \* value lines of the current tick (logged when the tick ends)
           ls |-> <<>>]                     \* lines of the current step
  /\ variant \in Variants
  /\ P = P0 /\ bad = "" /\ hist = <<>> /\ out = <<>>

Put(s, lines) == [s EXCEPT !.ls = @ \o lines]
Enq(s, evs) == [s EXCEPT !.q = @ \o evs]
DoneEv(s, t) == IF s.md[t] = "call" THEN <<Ev("done", t, 0)>> ELSE <<>>

(* Manager.processTask, `except BaseException`: the value is the error, task_failure and
   exception are fired, then (waitingHandlers = 0) _eventDone fires task_done *)
FailPath(s, t, c) ==
  Enq([s EXCEPT !.ws[t] = "fin", !.nv = Append(@, Ln("value", t, c, "err"))],
      <<Ev("fail", t, c), Ev("exc", t, 0)>> \o DoneEv(s, t))

(* one step of the generators registered for task t *)
ProcTask(s, t) ==
  LET a == \* the caller's generator
        IF s.cs[t] = "goreg"
          THEN Enq(Put([s EXCEPT !.cs[t] = "wait", !.ws[t] = "q"], <<Ln("fire", t, s.ex[t], "call")>>),
                   <<Ev("task", t, 0)>>)
        ELSE IF s.cs[t] = "waitreg"
          THEN Put([s EXCEPT !.cs[t] = "resumed"],
                   <<Ln("resume", t, IF s.ws[t] = "rej" THEN 7 ELSE s.ex[t],
                        IF s.ws[t] = "rej" \/ s.ex[t] = 4 THEN "err" ELSE "ok")>>)
        ELSE IF s.cs[t] = "resumed" THEN [s EXCEPT !.cs[t] = "end"]
        ELSE s
  IN  \* Worker._on_task
  IF s.cs[t] = "goreg" THEN a
  ELSE IF a.ws[t] = "reg" THEN
         IF a.closed
           THEN [FailPath(Put(a, <<Ln("submit", t, 0, "rejected")>>), t, 7) EXCEPT !.ws[t] = "rej"]
         ELSE Put([a EXCEPT !.pl[t] = "queued", !.pq = Append(@, t),
                            !.ws[t] = IF variant = "noloop" THEN "poll1" ELSE "poll"],
                  <<Ln("submit", t, 0, ""), Ln("poll", t, 0, "")>>)
  ELSE IF a.ws[t] \in {"poll", "poll1"} THEN
         IF a.pl[t] = "ready" \/ a.ws[t] = "poll1" THEN
              LET b == Put(a, (IF a.ws[t] = "poll" THEN <<Ln("poll", t, 1, "")>> ELSE <<>>)
                              \o <<Ln("get", t, IF a.pl[t] = "ready" THEN 1 ELSE 0, "")>>
                              \* a get() on an unfinished job blocks the loop until the pool has finished it
                              \o (IF a.pl[t] = "queued" THEN <<Ln("exec", t, 0, "")>> ELSE <<>>)
                              \o (IF a.pl[t] # "ready" THEN <<Ln("ready", t, 0, "")>> ELSE <<>>))
                  c == [b EXCEPT !.pl[t] = "ready"]
              IN IF c.ex[t] = 4 THEN FailPath(c, t, 4)
                 ELSE [c EXCEPT !.ws[t] = "got",
                                !.nv = IF c.ex[t] \in {1, 2} THEN Append(@, Ln("value", t, c.ex[t], "ok")) ELSE @]
         ELSE Put(a, (IF variant = "resubmit" THEN <<Ln("submit", t, 0, "")>> ELSE <<>>) \o <<Ln("poll", t, 0, "")>>)
  ELSE IF a.ws[t] = "got" THEN
         \* StopIteration: _eventDone fires task_done (if somebody waits) and task_success
         Enq([a EXCEPT !.ws[t] = "fin"], DoneEv(a, t) \o <<Ev("succ", t, a.ex[t])>>)
  ELSE a

RECURSIVE ProcFrom(_, _)
ProcFrom(s, t) == IF t > NT THEN s ELSE ProcFrom(ProcTask(s, t), t + 1)

(* pool.join(): what has been submitted is run to the end, in order *)
RECURSIVE JoinAll(_, _)
JoinAll(s, i) ==
  IF i > Len(s.pq) THEN s
  ELSE LET t == s.pq[i] IN
       IF s.pl[t] = "queued"
         THEN JoinAll(Put([s EXCEPT !.pl[t] = "ready"], <<Ln("exec", t, 0, ""), Ln("ready", t, 0, "")>>), i + 1)
       ELSE IF s.pl[t] = "execd"
         THEN JoinAll(Put([s EXCEPT !.pl[t] = "ready"], <<Ln("ready", t, 0, "")>>), i + 1)
       ELSE JoinAll(s, i + 1)

(* Worker._on_stopped *)
ShutDown(s) ==
  IF variant = "nojoin" THEN Put([s EXCEPT !.closed = TRUE], <<Ln("closed", 0, 0, "")>>)
  ELSE IF variant = "terminate"
    THEN Put([s EXCEPT !.closed = TRUE, !.term = TRUE,
                       !.pl = [t \in TS |-> IF s.pl[t] = "queued" THEN "dropped" ELSE s.pl[t]]],
             <<Ln("closed", 0, 0, "terminate"), Ln("joined", 0, 0, "")>>)
  ELSE Put(JoinAll(Put([s EXCEPT !.closed = TRUE], <<Ln("closed", 0, 0, "")>>), 1), <<Ln("joined", 0, 0, "")>>)

(* Manager._dispatcher for one queued event *)
Dispatch(s, e) ==
  LET t == e.t IN
  CASE e.e = "go" -> [s EXCEPT !.cs[t] = "goreg"]
    [] e.e = "task" ->
         IF s.det
           THEN \* nobody handles it: the event is done at once, with no value
                Enq(Put([s EXCEPT !.ws[t] = "fin"], <<Ln("taken", t, 0, "")>>), DoneEv(s, t) \o <<Ev("succ", t, 3)>>)
         ELSE Put([s EXCEPT !.ws[t] = "reg"], <<Ln("taken", t, 1, "")>>)
    [] e.e = "succ" -> Put(s, <<Ln("success", t, e.v, "")>>)
    [] e.e = "fail" -> Put(s, <<Ln("failure", t, e.v, "")>>)
    [] e.e = "done" -> IF s.cs[t] = "wait" THEN [s EXCEPT !.cs[t] = "waitreg"] ELSE s
    [] e.e = "exc" -> s
    [] e.e = "stopped" -> IF s.det THEN s ELSE ShutDown(s)
    [] e.e = "prep" -> LET a == IF variant # "pinned" /\ ~s.det THEN ShutDown(s) ELSE s
                       IN Enq(a, <<Ev("prepc", 0, 0)>>)
    [] e.e = "prepc" -> Enq([s EXCEPT !.det = TRUE], <<Ev("unregd", 0, 0)>>)
    [] e.e = "unregd" -> Put(s, <<Ln("unregistered", 0, 1, "")>>)
    [] e.e = "oprep" -> Enq(s, <<Ev("oprepc", 0, 0)>>)
    [] e.e = "oprepc" -> Enq(s, <<Ev("ounregd", 0, 0)>>)
    [] e.e = "ounregd" -> LET a == Put(s, <<Ln("unregistered", 0, 0, "")>>)
                          IN IF variant = "anyunreg" /\ ~s.det THEN ShutDown(a) ELSE a

RECURSIVE FlushFrom(_, _, _)
FlushFrom(s, batch, i) == IF i > Len(batch) THEN s ELSE FlushFrom(Dispatch(s, batch[i]), batch, i + 1)

(* Manager.tick(): step the tasks, dispatch the batch; the driver then looks at the values *)
TickF(s) ==
  LET s1 == ProcFrom(Put(s, <<Ln("tick", 0, 0, "")>>), 1)
      s2 == FlushFrom([s1 EXCEPT !.q = <<>>], s1.q, 1)
  IN [Put(s2, s2.nv) EXCEPT !.nv = <<>>]

(* nothing is left to do: the queue is empty, no generator is registered, the pool has finished *)
PoolIdle(s) == \A t \in TS : s.pl[t] \notin {"queued", "execd"}
Stable(s) == /\ s.q = <<>>
             /\ \A t \in TS : s.ws[t] \in {"idle", "fin", "rej"} /\ s.cs[t] \in {"none", "wait", "end"}

-----------------------------------------------------------------------------
LastKind == IF hist = <<>> THEN "" ELSE hist[Len(hist)][1]
CanStep == Len(hist) < MaxSteps /\ LastKind # "Q"

(* commit a step: the lines go through the monitor *)
Commit(s, h) ==
  LET r == Run(P, s.ls, bad) IN
  /\ st' = [s EXCEPT !.ls = <<>>]
  /\ P' = r[1] /\ bad' = r[2]
  /\ out' = IF KeepOut THEN out \o s.ls ELSE out
  /\ hist' = Append(hist, h)
  /\ UNCHANGED variant

Fire(mode, c) ==
  /\ CanStep /\ st.fired < NT /\ ~st.ureq
  /\ LET t == st.fired + 1
         s == [st EXCEPT !.fired = t, !.md[t] = mode, !.ex[t] = c]
     IN IF mode = "fire"
        THEN Commit(Enq(Put([s EXCEPT !.ws[t] = "q"], <<Ln("fire", t, c, "fire")>>), <<Ev("task", t, 0)>>),
                    <<"F", 1, c>>)
        ELSE Commit(Enq([s EXCEPT !.cs[t] = "goq"], <<Ev("go", t, 0)>>), <<"F", 2, c>>)

Tick == /\ CanStep /\ Commit(TickF(st), <<"T", 0, 0>>)

Exec(t) ==
  /\ CanStep /\ st.pl[t] = "queued"
  /\ Commit(Put([st EXCEPT !.pl[t] = "execd"], <<Ln("exec", t, 0, "")>>), <<"X", t, 0>>)

Publish(t) ==
  /\ CanStep /\ st.pl[t] = "execd"
  /\ Commit(Put([st EXCEPT !.pl[t] = "ready"], <<Ln("ready", t, 0, "")>>), <<"P", t, 0>>)

(* Manager.stop() from outside the loop: `stopped` is fired, then three ticks *)
Stop ==
  /\ WithStop /\ CanStep /\ ~st.sreq
  /\ LET s0 == Enq(Put([st EXCEPT !.sreq = TRUE], <<Ln("stop", 0, 0, "")>>), <<Ev("stopped", 0, 0)>>)
         s3 == TickF(TickF(TickF(s0)))
     IN Commit(Put(s3, <<Ln("stopped", 0, 0, "")>>), <<"S", 0, 0>>)

(* Worker.unregister(); the application does not fire tasks at a Worker it is removing: every
   task event fired so far has been dispatched *)
Unreg ==
  /\ WithUnreg /\ CanStep /\ ~st.ureq
  /\ \A t \in TS : st.ws[t] # "q" /\ st.cs[t] \notin {"goq", "goreg"}
  /\ Commit(Enq(Put([st EXCEPT !.ureq = TRUE], <<Ln("unreg", 0, 0, "")>>), <<Ev("prep", 0, 0)>>), <<"U", 0, 0>>)

Other ==
  /\ WithOther /\ CanStep /\ ~st.oreq
  /\ Commit(Enq(Put([st EXCEPT !.oreq = TRUE], <<Ln("ounreg", 0, 0, "")>>), <<Ev("oprep", 0, 0)>>), <<"O", 0, 0>>)

(* quiescence (the driver: let the pool finish, tick until nothing is left to do - which here is
   already so; the way there are Exec, Publish and Tick steps) *)
Quiet ==
  /\ hist # <<>> /\ LastKind # "Q"
  /\ Stable(st) /\ (PoolIdle(st) \/ st.term)
  /\ Commit(Put(st, <<Ln("quiet", 0, IF st.closed THEN 0 ELSE 1, "")>>), <<"Q", 0, 0>>)

Next == \/ \E mode \in Modes, c \in Outcomes : Fire(mode, c)
        \/ Tick
        \/ \E t \in TS : Exec(t)
        \/ \E t \in TS : Publish(t)
        \/ Stop
        \/ Unreg
        \/ Other
        \/ Quiet

Spec == Init /\ [][Next]_vars

-----------------------------------------------------------------------------
(* the statement as the monitor's verdict on every behaviour *)
Conforms == bad = ""

(* the exhaustive configuration runs both variants of the shut-down at once: the intended one conforms;
   the pinned one fails only in that an unregistered Worker leaves its pool running *)
ConformsIntended == variant = "intended" => bad = ""
PinnedFailsOnlyUnreg == (variant = "pinned" /\ bad # "") => (bad = "X03.pool_not_shut_down" /\ st.ureq)

(* and directly on the state *)
TypeOK == /\ st.fired \in 0..NT /\ bad \in STRING
          /\ \A t \in TS : st.pl[t] \in {"none", "queued", "execd", "ready", "dropped"}

(* a task is in the pool at most once, and only after its handler has started *)
SubmittedOnce == \A i, j \in 1..Len(st.pq) : i # j => st.pq[i] # st.pq[j]
PoolAfterStart == \A t \in TS : st.pl[t] # "none" => st.ws[t] \in {"poll", "poll1", "got", "fin"}
(* a value is handed over only from a finished job *)
HandOverFromReady == \A t \in TS : st.ws[t] = "got" => st.pl[t] = "ready"
(* once the pool is closed nothing is left unfinished in it (close + join) *)
ClosedMeansDone == st.closed => PoolIdle(st)
(* after quiescence every fired task is over *)
AllOver == LastKind = "Q" =>
             \A t \in TS : t <= st.fired => st.ws[t] \in {"fin", "rej"} /\ st.cs[t] \in {"none", "end"}

View == <<st, variant, P, bad, LastKind = "Q">>
=============================================================================
