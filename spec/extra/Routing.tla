------------------------------ MODULE Routing ------------------------------
(* X01 - generative, implementation-shaped model of request routing in
   circuits.web: Dispatcher._on_registered / _on_unregistered (the table
   `paths`), find_handlers / resolve_path / resolve_methods / accepts_vpath
   (circuits/web/dispatchers/dispatcher.py), Dispatcher._on_request (the event
   named after the handler is fired on the controller's channel with the
   remaining segments as positional and the request parameters as keyword
   arguments), the `expose` wrapper (circuits/web/controllers.py) calling the
   method, and what the HTTP component answers (200 with the handler's text,
   404 when the request event had no result, 500 when something raised, 301
   for a request target that is not in canonical spelling).

   The environment chooses the controllers (one of a palette of controller
   classes, or none, for each of the channels "/", "/a", "/a/b"), unregisters
   and re-registers them, and sends requests (method, path segments, query
   and body parameters, trailing slash, non-canonical spelling).  Every step
   emits the trace lines the instrumented real server emits; the monitor of
   RoutingOps judges them.

   Devs = {} is the intended algorithm.  Each name switches on one deviation of
   the pinned code (TLC must find the violation there; the counterexamples are
   replayed on the real code, which tells which deviations the tree under test
   has; the history dump then uses that set, so that the model's lines can be
   compared with the real ones on any tree):
     "inject"    find_handlers, having failed to match resolve_methods' own
                 ("index", parts), tries index once more with the literal word
                 "index" put in front of the segments: index(p1, p2) answers
                 GET /x with p1 = "index", p2 = "x"
     "defaults"  accepts_vpath compares the number of segments with the number
                 of DEFAULTS (n <= len(defaults)) instead of the number of
                 parameters without one: f(p1, p2, p3=None) is refused two
                 segments and accepted one
     "unexposed" get_handlers looks the segment up among ALL event handlers of
                 the controller: a plain @handler("ev") method runs for GET /ev,
                 GET /ev/x raises AttributeError (500), and the name of the
                 handler every component has (prepare_unregister_complete)
                 hides index: 404 / 500 instead of index(...)
   The variants are generators of cases and of predictions, never oracles.   *)
EXTENDS RoutingOps, TLC

CONSTANTS RootTpls, ATpls, ABTpls,   \* controller classes (template names, "none") the three channels may carry
          Segs, MaxLen,              \* path segments, maximal number of them
          Methods, Queries, Bodies,  \* HTTP methods; query / body parameter choices ("none", "p1", "p2", "z", "ze")
          TSs, NCs,                  \* trailing slash choices (subset of BOOLEAN); spellings ("" canonical, "dslash", "dot", "pct")
          Dynamic,                   \* BOOLEAN: controllers are unregistered / registered again
          MaxSteps, MaxReqs,         \* bounds on the environment history
          Devs

VARIABLES world,   \* <<template of "/", of "/a", of "/a/b">>
          reg,     \* controllers registered = keys of Dispatcher.paths
          reqs,    \* requests sent so far (the monitor looks them up by index)
          P, bad,  \* monitor state, first failed clause
          dbad,    \* first failure of the checks made directly on the model's own state (no monitor)
          hist,    \* environment history: what a replay drives
          out      \* every line emitted so far

vars == <<world, reg, reqs, P, bad, dbad, hist, out>>

-----------------------------------------------------------------------------
(* the palette of controller classes; the driver builds the real classes from
   this very table (printed by the ASSUME below)                              *)
H(name, how, na, nd, var, kw) ==
  [name |-> name, how |-> how,
   exp |-> how \in {"auto", "deco"},
   kind |-> IF how \in {"auto", "deco"} THEN "expose" ELSE IF how = "plain" THEN "plain" ELSE "none",
   na |-> na, nd |-> nd, var |-> var, kw |-> kw]
(* how: "auto"  public method of a Controller (exposed by the metaclass)
        "deco"  @expose(name) on a method whose own name starts with "_"
        "under" method called _name, no decorator        (not exposed)
        "false" public method decorated @expose(False)   (not exposed)
        "pub"   public method of a BaseController        (not exposed)
        "plain" @handler(name) on a method _on_name( *args, **kw)  (an event handler, not exposed) *)
Internal == "prepare_unregister_complete"

TplNames == {"none", "root", "var", "meth", "idx2", "base"}
Tpl(t) ==
  CASE t = "root" -> [base |-> FALSE, hs |-> <<
           H("index", "auto", 0, 0, FALSE, FALSE),
           H("a",     "auto", 0, 0, FALSE, FALSE),      \* shadows the channel /a
           H("f",     "auto", 2, 1, FALSE, FALSE),      \* f(p1, p2=None)
           H("_p",    "under", 0, 0, FALSE, FALSE),
           H("h",     "false", 0, 0, FALSE, FALSE) >>]
    [] t = "var"  -> [base |-> FALSE, hs |-> <<
           H("index", "auto", 0, 0, TRUE, TRUE),        \* index( *args, **kw)
           H("b",     "auto", 1, 0, TRUE, FALSE),       \* b(p1, *args); shadows /a/b when mounted on /a
           H("t.txt", "deco", 0, 0, FALSE, FALSE),
           H("ev",    "plain", 0, 0, TRUE, TRUE) >>]
    [] t = "meth" -> [base |-> FALSE, hs |-> <<
           H("GET",   "auto", 0, 0, TRUE, TRUE),        \* GET( *args, **kw)
           H("POST",  "auto", 0, 0, FALSE, FALSE),      \* POST()
           H("x",     "auto", 0, 0, FALSE, FALSE) >>]   \* x(): the handler named like the HTTP method comes first
    [] t = "idx2" -> [base |-> FALSE, hs |-> <<
           H("index", "auto", 2, 0, FALSE, FALSE),      \* index(p1, p2)
           H("f",     "auto", 3, 1, FALSE, FALSE),      \* f(p1, p2, p3=None)
           H("x",     "auto", 1, 1, FALSE, TRUE) >>]    \* x(p1=None, **kw)
    [] t = "base" -> [base |-> TRUE, hs |-> <<
           H("index", "deco", 0, 0, TRUE, FALSE),       \* @expose("index") _index( *args)
           H("pub",   "pub",  0, 0, FALSE, FALSE),
           H("e",     "deco", 1, 1, FALSE, FALSE) >>]   \* @expose("e") _e(p1=None)
    [] OTHER -> [base |-> FALSE, hs |-> <<>>]
TplTable == [t \in TplNames |-> Tpl(t)]        \* constant: evaluated once
ASSUME PrintT(<<"TEMPLATES", TplTable>>)

ChanSeq == << <<>>, <<"a">>, <<"a", "b">> >>
Slots == 1..3
HS(w, c) == TplTable[w[c]].hs
Ctrls(w) == [c \in Slots |-> [chan |-> ChanSeq[c], hs |-> HS(w, c)]]
Cfg(w, rs) == [ctrls |-> Ctrls(w), reqs |-> rs]
Present(w) == {c \in Slots : w[c] # "none"}

-----------------------------------------------------------------------------
(* requests *)
RECURSIVE SeqsOf(_)
SeqsOf(n) == IF n = 0 THEN {<<>>} ELSE LET s == SeqsOf(n - 1) IN s \cup {Append(p, x) : p \in {q \in s : Len(q) = n - 1}, x \in Segs}
Paths == SeqsOf(MaxLen)

QPairs(q) == CASE q = "p1" -> <<[k |-> "p1", v |-> "1"]>>
               [] q = "p2" -> <<[k |-> "p2", v |-> "2"]>>
               [] q = "z"  -> <<[k |-> "z", v |-> "3"]>>
               [] q = "ze" -> <<[k |-> "z", v |-> ""]>>        \* ?z=  (a blank value is a value)
               [] OTHER -> <<>>
QKey(q) == IF q = "ze" THEN "z" ELSE q
BPairs(b) == CASE b = "p1" -> <<[k |-> "p1", v |-> "4"]>>
               [] b = "z"  -> <<[k |-> "z", v |-> "5"]>>
               [] OTHER -> <<>>
SortedKeys(q, b) == SelectSeq(<<"p1", "p2", "z">>, LAMBDA k : k \in {QKey(q), b})

Req(m, segs, q, b, nc) ==
  [m |-> m, segs |-> segs, canon |-> nc = "", keys |-> SortedKeys(q, b), q |-> QPairs(q), b |-> BPairs(b)]

-----------------------------------------------------------------------------
(* find_handlers *)
NoSel == [found |-> FALSE, crash |-> FALSE, c |-> 0, name |-> "", vpath |-> <<>>]
Sel(c, name, vpath) == [found |-> TRUE, crash |-> FALSE, c |-> c, name |-> name, vpath |-> vpath]
Crash == [found |-> FALSE, crash |-> TRUE, c |-> 0, name |-> "", vpath |-> <<>>]

(* component._handlers.get(name): indices into HS; 0 stands for the handler
   every component adds to itself in BaseComponent.__init__                  *)
Get(w, c, nm) ==
  {j \in 1..Len(HS(w, c)) : /\ HS(w, c)[j].name = nm
                            /\ HS(w, c)[j].kind \in (IF "unexposed" \in Devs THEN {"expose", "plain"} ELSE {"expose"})}
  \cup (IF "unexposed" \in Devs /\ nm = Internal THEN {0} ELSE {})

(* accepts_vpath: "yes" / "no" / "crash" (a handler that did not go through
   expose has no .args attribute)                                             *)
Accepts1(hd, n) ==
  IF "defaults" \in Devs
  THEN hd.na = n \/ hd.var \/ (hd.nd > 0 /\ n <= hd.nd)
  ELSE hd.var \/ (hd.na - hd.nd <= n /\ n <= hd.na)
Accepts(w, c, hset, n) ==
  IF \E j \in hset : j = 0 \/ HS(w, c)[j].kind # "expose" THEN "crash"
  ELSE IF \A j \in hset : Accepts1(HS(w, c)[j], n) THEN "yes" ELSE "no"

(* one pass of `for method, vpath in resolve_methods(parts)`; k = 1: the pair
   (parts[0], parts[1:]), k = 2: ("index", parts)                            *)
TryPair(w, c, method, vpath) ==
  LET hs1 == Get(w, c, method)
      a1  == IF hs1 = {} \/ vpath = <<>> THEN "yes" ELSE Accepts(w, c, hs1, Len(vpath))
  IN IF hs1 # {} /\ a1 = "crash" THEN Crash
     ELSE IF hs1 # {} /\ a1 = "yes" THEN Sel(c, method, vpath)
     ELSE IF "inject" \in Devs
     THEN LET v2  == <<method>> \o vpath
              hs2 == Get(w, c, "index")
              a2  == IF hs2 = {} THEN "no" ELSE Accepts(w, c, hs2, Len(v2))
          IN IF a2 = "crash" THEN Crash
             ELSE IF a2 = "yes" THEN Sel(c, "index", v2)
             ELSE NoSel
     ELSE NoSel

TryMethods(w, c, parts) ==
  LET r1 == IF parts = <<>> THEN NoSel ELSE TryPair(w, c, parts[1], Tail(parts))
  IN IF r1.found \/ r1.crash THEN r1 ELSE TryPair(w, c, "index", parts)

RECURSIVE Find(_, _, _, _)
Find(w, rg, rq, i) ==
  IF i < 0 THEN NoSel
  ELSE LET cs == {c \in rg : ChanSeq[c] = Prefix(rq.segs, i)}
       IN IF cs = {} THEN Find(w, rg, rq, i - 1)
          ELSE LET c     == One(cs)
                   parts == Rest(rq.segs, i)
               IN IF Get(w, c, rq.m) # {} THEN Sel(c, rq.m, parts)
                  ELSE LET r == TryMethods(w, c, parts)
                       IN IF r.found \/ r.crash THEN r ELSE Find(w, rg, rq, i - 1)

(* the lines after "req": what runs, what is answered *)
Outcome(w, rg, rq, nc) ==
  IF nc # "" THEN <<Line("resp", 0, 0, 0, "", "", 301)>>     \* HTTP._on_read: redirect to the canonical spelling
  ELSE LET s == Find(w, rg, rq, Len(rq.segs)) IN
    IF s.crash THEN <<Line("resp", 0, 0, 0, "", "", 500)>>
    ELSE IF ~s.found THEN <<Line("resp", 0, 0, 0, "", "", 404)>>
    ELSE LET K  == KeySet(rq)
             f  == [k \in K |-> IF \E i \in 1..Len(rq.b) : rq.b[i].k = k
                                THEN (CHOOSE v \in {rq.b[i].v : i \in {j \in 1..Len(rq.b) : rq.b[j].k = k}} : TRUE)
                                ELSE (CHOOSE v \in Vals(rq, k) : TRUE)]      \* the body is read after the query string
             \* handlers of the event `name` on the channel: those the manager knows
             js == {j \in 1..Len(HS(w, s.c)) : HS(w, s.c)[j].name = s.name /\ HS(w, s.c)[j].kind \in {"expose", "plain"}}
         IN IF js = {} THEN <<Line("resp", 0, 0, 0, "", "", 404)>>       \* only the component's own handler, which listens elsewhere
            ELSE LET j  == One(js)
                     hd == HS(w, s.c)[j]
                 IN IF hd.kind = "plain" \/ Binds(hd, Len(s.vpath), K)
                    THEN <<Line("run", s.c, j, 0, ArgStr(hd, s.vpath, K, f), KwStr(hd, rq, f), 0),
                           Line("resp", 0, 0, 0, "", "", 200)>>
                    ELSE <<Line("resp", 0, 0, 0, "", "", 500)>>          \* TypeError from the call

-----------------------------------------------------------------------------
Emit(C, lines) == LET r == Run(C, P, lines, bad) IN P' = r[1] /\ bad' = r[2] /\ out' = out \o lines

HEntry(op, c, m, segs, q, b, ts, nc) ==
  [op |-> op, c |-> c, m |-> m, segs |-> segs, q |-> q, b |-> b, ts |-> ts, nc |-> nc]

(* stated on the model's own terms, without the monitor: what one request may leave in the trace *)
DirectCheck(oc) ==
  LET runs == {i \in 1..Len(oc) : oc[i].k = "run"}
  IN IF Len(oc) = 0 \/ oc[Len(oc)].k # "resp" \/ Cardinality({i \in 1..Len(oc) : oc[i].k = "resp"}) # 1 THEN "answers"
     ELSE IF Cardinality(runs) > 1 THEN "twice"
     ELSE IF \E i \in runs : oc[i].c \notin reg THEN "unregistered"
     ELSE IF \E i \in runs : ~HS(world, oc[i].c)[oc[i].h].exp THEN "unexposed"
     ELSE IF \E i \in runs : oc[Len(oc)].st # 200 THEN "status"
     ELSE ""

Worlds == {<<r, a, ab>> : r \in RootTpls, a \in ATpls, ab \in ABTpls}
RECURSIVE RegLines(_, _)
RegLines(w, c) == IF c > 3 THEN <<>>
                  ELSE (IF w[c] # "none" THEN <<Line("reg", c, 0, 0, "", "", 0)>> ELSE <<>>) \o RegLines(w, c + 1)

Init == \E w \in Worlds :
          /\ world = w /\ reg = Present(w) /\ reqs = <<>>
          /\ LET lines == RegLines(w, 1)
                 r == Run(Cfg(w, <<>>), P0, lines, "")
             IN P = r[1] /\ bad = r[2] /\ out = lines
          /\ dbad = ""
          /\ hist = <<HEntry("W", 0, "", w, "", "", FALSE, "")>>

CanStep == Len(hist) <= MaxSteps

Unreg(c) ==
  /\ Dynamic /\ CanStep /\ c \in reg
  /\ reg' = reg \ {c}
  /\ Emit(Cfg(world, reqs), <<Line("unreg", c, 0, 0, "", "", 0)>>)
  /\ hist' = Append(hist, HEntry("U", c, "", <<>>, "", "", FALSE, ""))
  /\ UNCHANGED <<world, reqs, dbad>>

Rereg(c) ==
  /\ Dynamic /\ CanStep /\ c \in Present(world) \ reg
  /\ reg' = reg \cup {c}
  /\ Emit(Cfg(world, reqs), <<Line("reg", c, 0, 0, "", "", 0)>>)
  /\ hist' = Append(hist, HEntry("R", c, "", <<>>, "", "", FALSE, ""))
  /\ UNCHANGED <<world, reqs, dbad>>

Request(m, segs, q, b, ts, nc) ==
  /\ CanStep /\ Len(reqs) < MaxReqs
  /\ (b # "none" => m = "POST")
  /\ (nc # "" => segs # <<>> /\ ~ts)
  /\ LET rq == Req(m, segs, q, b, nc)
         rs == Append(reqs, rq)
         oc == Outcome(world, reg, rq, nc)
     IN /\ reqs' = rs
        /\ Emit(Cfg(world, rs), <<Line("req", 0, 0, Len(rs), "", "", 0)>> \o oc)
        /\ dbad' = IF dbad # "" THEN dbad ELSE DirectCheck(oc)
  /\ hist' = Append(hist, HEntry("Q", 0, m, segs, q, b, ts, nc))
  /\ UNCHANGED <<world, reg>>

Next == \/ \E c \in Slots : Unreg(c)
        \/ \E c \in Slots : Rereg(c)
        \/ \E m \in Methods, segs \in Paths, q \in Queries, b \in Bodies, ts \in TSs, nc \in NCs :
              Request(m, segs, q, b, ts, nc)

Spec == Init /\ [][Next]_vars

-----------------------------------------------------------------------------
TypeOK == /\ reg \subseteq Present(world) /\ bad \in STRING /\ P.ran \in 0..1 /\ P.cur = 0

(* the statement as the monitor's verdict on every behaviour of the model *)
Conforms == bad = ""

(* the same, for the part that can be said without the monitor's operators *)
Direct == dbad = ""

(* hist, out and the growing request list are hidden: a request leaves nothing
   behind, so every (world, registered set) is one state and every request is
   generated (and judged: bad is in the view) from each                       *)
View == <<world, reg, bad, dbad, P.reg, P.cur>>
=============================================================================
