SPECIFICATION Spec
CONSTANTS
  Cfgs <- CfgsAll
  Pres = {31, 30, 15, 0}
  Extras = {"none", "algsess"}
  QopQfs <- QopQfsFew
  FixErr = TRUE
  FixNoPw = TRUE
  FixEnc = TRUE
INVARIANT TypeOK
INVARIANT Conforms
INVARIANT AuthIffVerifies
CHECK_DEADLOCK FALSE
