SPECIFICATION Spec
CONSTANTS
  Cfgs <- CfgsAll
  Pres = {31, 30, 15, 0}
  Extras = {"none", "algsess"}
  QopQfs <- QopQfsFew
  FixErr = TRUE
  FixNoPw = TRUE
  FixEnc = TRUE
  Reuse = FALSE
  Doms = {"same", "tbl", "realm", "both"}
  Pres2 = {31, 15}
  Extras2 = {"none"}
  QopQfs2 <- QopQfsTwo
INVARIANT TypeOK
INVARIANT Conforms
INVARIANT AuthIffVerifies
CHECK_DEADLOCK FALSE
