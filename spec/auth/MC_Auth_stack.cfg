SPECIFICATION Spec
CONSTANTS
  Cfgs <- CfgsStack
  Pres <- PresUpTo2
  Extras = {"none", "opaque", "algmd5", "algsess", "algbogus"}
  QopQfs <- QopQfsMid
  FixErr = TRUE
  FixNoPw = TRUE
  FixEnc = TRUE
INVARIANT TypeOK
INVARIANT Conforms
INVARIANT AuthIffVerifies
CHECK_DEADLOCK FALSE
