SPECIFICATION Spec
CONSTANTS
  Cfgs <- CfgsStack
  Pres <- PresUpTo2
  Extras = {"none", "opaque", "algmd5", "algsess", "algbogus"}
  QopQfs <- QopQfsQuick
  FixErr = TRUE
  FixNoPw = TRUE
  FixEnc = TRUE
INVARIANT TypeOK
INVARIANT Conforms
INVARIANT AuthIffVerifies
CHECK_DEADLOCK FALSE
