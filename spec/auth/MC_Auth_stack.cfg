SPECIFICATION Spec
CONSTANTS
  Cfgs <- CfgsStack
  Pres <- PresUpTo2
  Extras = {"none", "opaque", "algmd5", "algsess", "algbogus"}
  QopQfs <- QopQfsMid
  FixErr = TRUE
  FixNoPw = TRUE
  FixEnc = TRUE
  Reuse = FALSE
  Doms = {"same", "tbl", "realm", "both"}
  Pres2 = {31, 15}
  Extras2 = {"none"}
  QopQfs2 <- QopQfsTwo
INVARIANT TypeOK
INVARIANT Conforms
INVARIANT AuthIffVerifies
CHECK_DEADLOCK FALSE
