SPECIFICATION Spec
CONSTANTS
  Cfgs <- CfgsQuickX
  Pres = {31, 30, 29, 27, 23, 15, 1, 0}
  Extras = {"none", "algsess", "algbogus"}
  QopQfs <- QopQfsQuick
  FixErr = FALSE
  FixNoPw = FALSE
  FixEnc = FALSE
  Reuse = FALSE
  Doms = {"same", "tbl", "realm", "both"}
  Pres2 = {31, 15}
  Extras2 = {"none"}
  QopQfs2 <- QopQfsTwo
INVARIANT TypeOK
INVARIANT Conforms
INVARIANT AuthIffVerifies
CHECK_DEADLOCK FALSE
