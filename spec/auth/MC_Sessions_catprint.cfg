SPECIFICATION Spec
CONSTANTS
  Ips = {"a1", "a1d"}
  Agents = {"u1", "du1"}
  MaxReq = 3
  Forged = {"selfmade", "transplant"}
  Ops = {"r", "w"}
  Variant = "catprint"
  FirstIp = "a1"
  FirstAgent = "u1"
  XNames = {}
  MaxExtra = 0
INVARIANT TypeOK
INVARIANT Conforms
INVARIANT SessionBound
VIEW View
CHECK_DEADLOCK FALSE
