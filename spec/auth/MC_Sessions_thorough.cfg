SPECIFICATION Spec
CONSTANTS
  Ips = {"a1", "a2"}
  Agents = {"u1", "u2"}
  MaxReq = 5
  Forged = {"garbage", "selfmade", "transplant"}
  Ops = {"r", "w", "x"}
  Variant = "bound"
  FirstIp = "a1"
  FirstAgent = "u1"
  XNames = {"xff"}
  MaxExtra = 1
INVARIANT TypeOK
INVARIANT Conforms
INVARIANT SessionBound
VIEW View
CHECK_DEADLOCK FALSE
