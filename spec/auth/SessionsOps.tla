---------------------------- MODULE SessionsOps ----------------------------
(* C20 (session part) - the property, as a monitor over trace lines.

   One line = one request handled by the Sessions component:
     ip, agent   the client fingerprint (remote address, User-Agent)
     ck          the id presented in the cookie, as an index into the ids
                 assigned so far in this trace (order of first assignment);
                 0 = no cookie, or a value that was never assigned to anybody
     fk          how the cookie was made: "none" | "issued" | "garbage" |
                 "selfmade" | "transplant"   (classification only)
     sid         index of the id the request was bound to (response cookie and
                 request.session.sid); n+1 = an id never assigned before
     data        marker found in request.session (0 = empty; -1 = session
                 object and cookie disagree)
     w           marker this request then stored in its session (0 = none)
     x           1 iff the request expired its session
     xh, xa      a further header the client sent and the address it names
                 ("xff" X-Forwarded-For, "xfflist" the same with a list, "xrealip",
                 "forwarded", "via", "clientip", "xclientip"; "none"): the client
                 is its peer address and user agent whatever such a header
                 says, so the monitor does not read them (classification only)

   Monitor state: fp[i] = fingerprint of the request the i-th id was first
   assigned to, st[i] = marker stored under it.

   C20: data stored under an id is returned only to a request presenting that
   id from the fingerprint it belongs to; every other request gets a fresh id
   (and so an empty session).  Whether a *legitimate* request gets its data
   back is not demanded by the statement ("only").                         *)
EXTENDS Integers, Sequences

P0 == [fp |-> <<>>, st |-> <<>>]

Fail(P, ln) ==
  LET n == Len(P.fp) IN
  IF ln.sid = n + 1 THEN (IF ln.data # 0 THEN "C20.session_leak" ELSE "")
  ELSE IF ln.sid < 1 \/ ln.sid > n + 1 THEN "C20.session_not_fresh"      \* cannot be produced by the projection
  ELSE IF ln.ck = ln.sid /\ P.fp[ln.sid] = <<ln.ip, ln.agent>>
       THEN (IF ln.data \notin {0, P.st[ln.sid]} THEN "C20.session_leak" ELSE "")
       ELSE (IF ln.data # 0 THEN "C20.session_leak" ELSE "C20.session_not_fresh")

Apply(P, ln) ==
  LET n  == Len(P.fp)
      P1 == IF ln.sid = n + 1
            THEN [fp |-> Append(P.fp, <<ln.ip, ln.agent>>), st |-> Append(P.st, 0)]
            ELSE P
  IN IF ln.sid < 1 \/ ln.sid > n + 1 THEN P
     ELSE IF ln.x = 1 THEN [P1 EXCEPT !.st[ln.sid] = 0]
     ELSE IF ln.w # 0 THEN [P1 EXCEPT !.st[ln.sid] = ln.w]
     ELSE P1

RECURSIVE Run(_, _, _)
Run(P, lines, badSoFar) ==
  IF lines = <<>> THEN <<P, badSoFar>>
  ELSE LET ln == Head(lines)
           f  == IF badSoFar = "" THEN Fail(P, ln) ELSE badSoFar
       IN Run(Apply(P, ln), Tail(lines), f)
=============================================================================
