SPECIFICATION Spec
CONSTANTS
  Ips = {"a1", "a2"}
  Agents = {"u1", "u2"}
  MaxReq = 4
  Forged = {"garbage", "selfmade", "transplant"}
  Ops = {"r", "w", "x"}
  Variant = "nofp"
  FirstIp = "a1"
  FirstAgent = "u1"
  XNames = {}
  MaxExtra = 0
INVARIANT TypeOK
INVARIANT Conforms
INVARIANT SessionBound
VIEW View
CHECK_DEADLOCK FALSE
