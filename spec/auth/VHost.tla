------------------------------- MODULE VHost -------------------------------
(* C20 (gateway trust part) - generative model of
   circuits.web.dispatchers.virtualhosts.VirtualHosts._on_request: the finite
   table trusted_gateways x remote address x X-Forwarded-Host x Host.

   Variant "kept": the constructor keeps the trusted_gateways argument (None =
   honour the header from anybody).  Variant "discarded": the constructor of
   the pinned tree, `self.trusted_gateways = None` whatever was passed: TLC
   must find the violation (teeth).  A variant is a generator, never an oracle. *)
EXTENDS VHostOps, TLC

CONSTANTS Trusteds, Remotes, Xfhs, Hosts, Variant

VARIABLES c,     \* <<trusted, remote, xfh, host>>: what a replay drives
          out, bad

vars == <<c, out, bad>>

Prefix(domain) == CASE domain = "a.example" -> "a" [] domain = "b.example" -> "b" [] OTHER -> "root"

HostDomain(h) == IF h = "mapped" THEN "a.example" ELSE "www.example"

(* first list element, stripped, lower-cased; "" when absent or empty *)
Forwarded(x) == CASE x \in {"mapped", "list"} -> "b.example" [] x = "unmapped" -> "zzz.example" [] OTHER -> ""

Consulted(t, r) == \/ Variant = "discarded"
                   \/ t = "none"
                   \/ r \in TrustedSet(t)

Case(t, r, x, h) ==
  /\ c = <<>>
  /\ c' = <<t, r, x, h>>
  /\ LET fw     == IF Consulted(t, r) THEN Forwarded(x) ELSE ""
         domain == IF fw # "" THEN fw ELSE HostDomain(h)
         path   == Prefix(domain)
         base   == Prefix(HostDomain(h))
         lines  == <<[trusted |-> t, remote |-> r, xfh |-> x, host |-> h, path |-> path, infl |-> path # base]>>
     IN out' = lines /\ bad' = Run(P0, lines, "")[2]

Init == c = <<>> /\ out = <<>> /\ bad = ""

Next == \E t \in Trusteds, r \in Remotes, x \in Xfhs, h \in Hosts : Case(t, r, x, h)

Spec == Init /\ [][Next]_vars

-----------------------------------------------------------------------------
TypeOK == bad \in STRING /\ Len(out) <= 1

Conforms == bad = ""

(* C20 stated directly: Honoured => remote \in trusted, for a configured list *)
GatewayTrust == out # <<>> =>
  LET ln == out[1] IN (ln.infl /\ ln.trusted # "none") => ln.remote \in TrustedSet(ln.trusted)
=============================================================================
