------------------------------- MODULE VHost -------------------------------
(* C20 (gateway trust part) - generative model of
   circuits.web.dispatchers.virtualhosts.VirtualHosts._on_request: the finite
   table trusted_gateways x remote address x X-Forwarded-Host x Host.

   Variant "kept": the constructor keeps the trusted_gateways argument (None =
   honour the header from anybody).  Variant "discarded": the constructor of
   the pinned tree, `self.trusted_gateways = None` whatever was passed: TLC
   must find the violation (teeth).  Variant "suffixtrust": the peer is trusted
   when its address text ends with a gateway's (110.0.0.1 passes for 10.0.0.1):
   TLC must find that too.  Variant "nohostfallback": the forwarded host is used
   whenever the Host header is empty or absent, whatever the peer: likewise.  A variant is a generator, never an oracle.

   A peer address is a token sequence <<rpre, remote, rpost>> (VHostOps), so
   that the table contains peers whose text has a gateway's address as proper
   suffix, prefix or substring, and the IPv4-mapped IPv6 form.             *)
EXTENDS VHostOps, TLC

CONSTANTS Trusteds, Remotes, Pres, Posts, Xfhs, Hosts, Variant

VARIABLES c,     \* <<trusted, remote, rpre, rpost, xfh, host>>: what a replay drives
          out, bad

vars == <<c, out, bad>>

Prefix(domain) == CASE domain = "a.example" -> "a" [] domain = "b.example" -> "b" [] OTHER -> "root"

(* the Host header: names a configured domain / names none / is empty / is absent (HTTP/1.0) *)
HostDomain(h) == CASE h = "mapped" -> "a.example" [] h = "unmapped" -> "www.example" [] OTHER -> ""

(* first list element, stripped, lower-cased; "" when absent or empty *)
Forwarded(x) == CASE x \in {"mapped", "list"} -> "b.example" [] x = "unmapped" -> "zzz.example" [] OTHER -> ""

(* `request.remote.ip in self.trusted_gateways`: membership of the whole address *)
Consulted(t, r, pre, post) ==
  \/ Variant = "discarded"
  \/ t = "none"
  \/ r \in TrustedSet(t) /\ post = "" /\ (pre = "" \/ Variant = "suffixtrust")

Case(t, r, pre, post, x, h) ==
  /\ c = <<>>
  /\ c' = <<t, r, pre, post, x, h>>
  /\ LET fw     == IF Consulted(t, r, pre, post) \/ (Variant = "nohostfallback" /\ HostDomain(h) = "")
                   THEN Forwarded(x) ELSE ""
         domain == IF fw # "" THEN fw ELSE HostDomain(h)
         path   == Prefix(domain)
         base   == Prefix(HostDomain(h))
         lines  == <<[trusted |-> t, remote |-> r, rpre |-> pre, rpost |-> post, xfh |-> x, host |-> h, path |-> path, infl |-> path # base]>>
     IN out' = lines /\ bad' = Run(P0, lines, "")[2]

Init == c = <<>> /\ out = <<>> /\ bad = ""

Next == \E t \in Trusteds, r \in Remotes, pre \in Pres, post \in Posts, x \in Xfhs, h \in Hosts : Case(t, r, pre, post, x, h)

Spec == Init /\ [][Next]_vars

-----------------------------------------------------------------------------
TypeOK == bad \in STRING /\ Len(out) <= 1

Conforms == bad = ""

(* C20 stated directly: Honoured => remote \in trusted, for a configured list *)
GatewayTrust == out # <<>> =>
  LET ln == out[1] IN (ln.infl /\ ln.trusted # "none") => FromTrusted(ln)
=============================================================================
