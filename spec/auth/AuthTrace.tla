---------------------------- MODULE AuthTrace ----------------------------
(* C20 - trace specification for the authentication part: judges decisions
   recorded from the real check_auth / basic_auth / digest_auth and handler
   idioms with the monitor of AuthOps.  One initial state per trace, one step
   per line, total verdict.                                                *)
EXTENDS AuthOps, Json, IOUtils, TLC

Traces == JsonDeserialize(IOEnv.TRACE_FILE)

VARIABLES tid, l, P, bad, badline
vars == <<tid, l, P, bad, badline>>

Init == /\ tid \in 1..Len(Traces) /\ l = 1 /\ P = P0 /\ bad = "" /\ badline = 0

Next == /\ l <= Len(Traces[tid])
        /\ LET ln == Traces[tid][l]
               f  == Fail(P, ln)
           IN /\ bad' = IF bad = "" THEN f ELSE bad
              /\ badline' = IF bad = "" /\ f # "" THEN l ELSE badline
              /\ P' = Apply(P, ln)
        /\ l' = l + 1
        /\ UNCHANGED tid

Spec == Init /\ [][Next]_vars

Report == (l = Len(Traces[tid]) + 1) => PrintT(<<"VERDICT", tid, bad, badline>>)
=============================================================================
