----------------------------- MODULE AuthOps -----------------------------
(* C20 (authentication part) - the property, as a monitor over trace lines.

   One trace line = one request carrying one Authorization value, decided by
   the real code.  A line is the flat record

     configuration
       api    "check" | "basic" | "digest"          check_auth / basic_auth / digest_auth called
                                                   on real Request/Response objects
              "idiomb" | "idiomd"                  `if check_auth(..): return secret; return
                                                   basic_auth(..)/digest_auth(..)` in a Controller
                                                   under the real HTTP stack (tests/web, docs)
              "filterb" | "filterd"                `if not check_auth(..): event.stop(); return
                                                   basic_auth/digest_auth(..)` request filter
                                                   (examples/web/authdemo.py, circuits.web.main)
       enc    "plain" (encrypt=str, clear-text table) | "md5" (default encrypt, md5-hex table)
       tbl    "dict" | "fdict" | "fpw"             form of the `users` argument
       m      request method
     credential class
       sch    "none" | "nospace" | "unknown" | "basic" | "digest"
       form   basic: "ok" | "upper" | "bad" (not base64) | "nocolon";  nospace: "bare" | "glued";
              unknown: "bearer" | "digestx";  otherwise "std"
       user   "known" | "unknown"                  in / not in the table
       sec    "right" | "wrong" | "none" (the text None) | "empty" | "derived" | "other"
              (another table user's secret)
       realm  "right" | "wrong"                    realm named in the Digest header (and in A1)
       pres   0..31                                bit set of required Digest fields present
                                                   (1 username, 2 realm, 4 nonce, 8 uri, 16 response)
       extra  "none" | "opaque" | "algmd5" | "algsess" | "algbogus"
       qop    "none" | "auth" | "authint" | "bogus"
       qf     "both" | "nocnonce" | "nonc" | "neither"   nc / cnonce present
       hm     "same" | "other"                     method used in the digest vs request method
     which check on the request object
       step   1 | 2    the first check on a fresh request object / a second check
                       on the SAME request object (function-level apis only)
       dom    the protection domain (realm, user table) of this check relative to
              the one the credential class is described for: "same" (always for
              step 1) | "tbl" (same realm, a table that has no entry for the
              user) | "realm" (another realm, same table) | "both"
     decision (observed)
       ret    class of the returned value / response status / "exc"
       login  "unset" | "false" | "name" | "falsy" | "na"    request.login afterwards
       auth   BOOLEAN  the request was treated as authenticated: the protected
                       result was (would be, by the documented use of the return
                       value) obtained.  An exception counts as refused.

   Verdict(ln) says what C20 demands for the class: "must" (the credentials
   verify against the table entry for the realm), "mustnot" (every other
   Authorization value), or "open" where the statement does not settle it
   (a valid credential of the other scheme than the one the resource asks
   for; qop=auth-int, which the server does not offer; an unknown algorithm
   token on an otherwise correct MD5 digest).  The monitor is stateless.  *)
EXTENDS Integers, Sequences

AllPresent == 31

P0 == [n |-> 0]

BasicFamily  == {"basic", "idiomb", "filterb"}
DigestFamily == {"digest", "idiomd", "filterd"}

GoodSecret(ln) == ln.user = "known" /\ ln.sec = "right"

BasicVerifies(ln) == ln.sch = "basic" /\ ln.form \in {"ok", "upper"} /\ GoodSecret(ln)

(* everything that carries the proof of knowledge is right *)
DigestCore(ln) == /\ ln.sch = "digest" /\ GoodSecret(ln) /\ ln.realm = "right"
                  /\ ln.pres = AllPresent /\ ln.hm = "same"

DigestVerifies(ln) ==
  /\ DigestCore(ln)
  /\ \/ ln.qop = "none" /\ ln.qf = "neither" /\ ln.extra \in {"none", "opaque", "algmd5"}
     \/ ln.qop = "auth" /\ ln.qf = "both" /\ ln.extra \in {"none", "opaque", "algmd5", "algsess"}

(* well-formed, right secret, but a variant the server never offered *)
DigestOpen(ln) ==
  /\ DigestCore(ln) /\ ~DigestVerifies(ln)
  /\ \/ ln.qop = "authint" /\ ln.qf = "both"
     \/ ln.extra = "algbogus" /\ ((ln.qop = "none" /\ ln.qf = "neither") \/ (ln.qop = "auth" /\ ln.qf = "both"))

VerdictSame(ln) ==
  IF BasicVerifies(ln) THEN (IF ln.api \in DigestFamily THEN "open" ELSE "must")
  ELSE IF DigestVerifies(ln) THEN (IF ln.api \in BasicFamily THEN "open" ELSE "must")
  ELSE IF DigestOpen(ln) THEN "open"
  ELSE "mustnot"

(* The verdict is about the domain THIS check is configured for, whatever an
   earlier check on the same request object decided: no entry for the user in
   this table, or (Digest) a header computed for another realm, never verify.
   Basic credentials carry no realm: right for the table but asked for under
   another realm is left open. *)
Verdict(ln) ==
  IF ln.dom \in {"tbl", "both"} THEN "mustnot"
  ELSE IF ln.dom = "realm" THEN (IF BasicVerifies(ln) THEN "open" ELSE "mustnot")
  ELSE VerdictSame(ln)

Verifies(ln) == Verdict(ln) = "must"

Fail(P, ln) ==
  LET v == Verdict(ln) IN
  IF ln.auth /\ v = "mustnot" THEN "C20.accepts_unverified"
  ELSE IF ~ln.auth /\ v = "must" THEN "C20.rejects_valid"
  ELSE IF ln.login = "name" /\ v = "mustnot" THEN "C20.login_unverified"
  ELSE ""

Apply(P, ln) == [P EXCEPT !.n = @ + 1]

RECURSIVE Run(_, _, _)
Run(P, lines, badSoFar) ==
  IF lines = <<>> THEN <<P, badSoFar>>
  ELSE LET ln == Head(lines)
           f  == IF badSoFar = "" THEN Fail(P, ln) ELSE badSoFar
       IN Run(Apply(P, ln), Tail(lines), f)
=============================================================================
