SPECIFICATION Spec
CONSTANTS
  Ips = {"a1", "a1d"}
  Agents = {"u1", "du1"}
  MaxReq = 3
  Forged = {"selfmade", "transplant"}
  Ops = {"r", "w"}
  Variant = "bound"
  FirstIp = "a1"
  FirstAgent = "u1"
  XNames = {}
  MaxExtra = 0
INVARIANT Conforms
CHECK_DEADLOCK FALSE
