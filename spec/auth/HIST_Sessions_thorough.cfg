SPECIFICATION Spec
CONSTANTS
  Ips = {"a1", "a2"}
  Agents = {"u1", "u2"}
  MaxReq = 3
  Forged = {"garbage", "selfmade", "transplant"}
  Ops = {"r", "w", "x"}
  Variant = "bound"
  FirstIp = "a1"
  FirstAgent = "u1"
  XNames = {}
  MaxExtra = 0
INVARIANT Conforms
CHECK_DEADLOCK FALSE
