------------------------------ MODULE VHostOps ------------------------------
(* C20 (gateway trust part) - the property, as a monitor over trace lines.

   One line = one request routed by the VirtualHosts dispatcher:
     trusted  the trusted_gateways argument: "none" (not given), "empty" ([]),
              "g" ([g]), "gg2" ((g, g2)), "gset" ({g})
     remote   "g" | "g2" | "other"        the address request.remote.ip is built around
     rpre     "" | "1" | "v6"             text put in front of it: nothing, a digit
                                          (gateway 10.0.0.1 -> 110.0.0.1), "::ffff:" (the
                                          IPv4-mapped IPv6 form of the same host)
     rpost    "" | "0"                    text put behind it (10.0.0.1 -> 10.0.0.10)
              An address is this token sequence; two addresses are the same peer
              only if all three tokens agree.  With rpre = "1" the gateway's text is
              a proper suffix of the peer's, with rpost = "0" a proper prefix, with
              both a substring: different hosts.  The IPv4-mapped form of a trusted
              gateway is the same host written differently: either routing is
              accepted for it (open).
     xfh      X-Forwarded-Host: "absent" | "mapped" (b.example) | "list"
              ("B.Example , c.example") | "unmapped" | "empty"
     host     Host: "mapped" (a.example) | "unmapped" | "empty" | "absent" (HTTP/1.0 request)
     path     where the request was routed: "a" | "b" | "root" | "other"
     infl     BOOLEAN: request.path differs from what the same request
              without the X-Forwarded-Host header gets = the header influenced
              the routing

   C20: a forwarded-host header influences routing only for requests from the
   configured trusted gateways.  When no list is configured ("none") the
   statement does not settle the outcome (the code documents None as "accept
   from anybody"): open.  Whether a trusted gateway's header is honoured is
   not demanded ("only").                                                  *)
EXTENDS Integers, Sequences

P0 == [n |-> 0]

TrustedSet(t) == CASE t = "g" -> {"g"} [] t = "gset" -> {"g"} [] t = "gg2" -> {"g", "g2"} [] OTHER -> {}

(* the peer is one of the configured gateways (exactly, or its IPv4-mapped form) *)
FromTrusted(ln) == ln.remote \in TrustedSet(ln.trusted) /\ ln.rpost = "" /\ ln.rpre \in {"", "v6"}

Fail(P, ln) ==
  IF ln.infl /\ ln.trusted # "none" /\ ~FromTrusted(ln)
  THEN "C20.gateway_untrusted_honoured" ELSE ""

Apply(P, ln) == [P EXCEPT !.n = @ + 1]

RECURSIVE Run(_, _, _)
Run(P, lines, badSoFar) ==
  IF lines = <<>> THEN <<P, badSoFar>>
  ELSE LET ln == Head(lines)
           f  == IF badSoFar = "" THEN Fail(P, ln) ELSE badSoFar
       IN Run(Apply(P, ln), Tail(lines), f)
=============================================================================
