------------------------------ MODULE VHostOps ------------------------------
(* C20 (gateway trust part) - the property, as a monitor over trace lines.

   One line = one request routed by the VirtualHosts dispatcher:
     trusted  the trusted_gateways argument: "none" (not given), "empty" ([]),
              "g" ([g]), "gg2" ((g, g2)), "gset" ({g})
     remote   "g" | "g2" | "other"        request.remote.ip
     xfh      X-Forwarded-Host: "absent" | "mapped" (b.example) | "list"
              ("B.Example , c.example") | "unmapped" | "empty"
     host     Host: "mapped" (a.example) | "unmapped"
     path     where the request was routed: "a" | "b" | "root" | "other"
     infl     BOOLEAN: request.path differs from what the same request
              without the X-Forwarded-Host header gets = the header influenced
              the routing

   C20: a forwarded-host header influences routing only for requests from the
   configured trusted gateways.  When no list is configured ("none") the
   statement does not settle the outcome (the code documents None as "accept
   from anybody"): open.  Whether a trusted gateway's header is honoured is
   not demanded ("only").                                                  *)
EXTENDS Integers, Sequences

P0 == [n |-> 0]

TrustedSet(t) == CASE t = "g" -> {"g"} [] t = "gset" -> {"g"} [] t = "gg2" -> {"g", "g2"} [] OTHER -> {}

Fail(P, ln) ==
  IF ln.infl /\ ln.trusted # "none" /\ ln.remote \notin TrustedSet(ln.trusted)
  THEN "C20.gateway_untrusted_honoured" ELSE ""

Apply(P, ln) == [P EXCEPT !.n = @ + 1]

RECURSIVE Run(_, _, _)
Run(P, lines, badSoFar) ==
  IF lines = <<>> THEN <<P, badSoFar>>
  ELSE LET ln == Head(lines)
           f  == IF badSoFar = "" THEN Fail(P, ln) ELSE badSoFar
       IN Run(Apply(P, ln), Tail(lines), f)
=============================================================================
