SPECIFICATION Spec
CONSTANTS
  Trusteds = {"none", "empty", "g", "gg2", "gset"}
  Remotes = {"g", "g2", "other"}
  Pres = {"", "1", "v6"}
  Posts = {"", "0"}
  Xfhs = {"absent", "mapped", "list", "unmapped", "empty"}
  Hosts = {"mapped", "unmapped", "empty", "absent"}
  Variant = "discarded"
INVARIANT TypeOK
INVARIANT Conforms
INVARIANT GatewayTrust
CHECK_DEADLOCK FALSE
