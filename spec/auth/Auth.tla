------------------------------- MODULE Auth -------------------------------
(* C20 (authentication part) - generative model: the finite space of
   (configuration, credential class) cases and, for each, the decision of the
   check_auth algorithm (circuits/web/tools.py + _httpauth.py), shaped like the
   code: split the header, look the scheme up, parse, look the password up,
   check the response.  Each behaviour is one case: Init, then one Case* step
   that emits the trace line the instrumented real code emits and runs it
   through the monitor of AuthOps.

   Fixes = [err, nopw, enc]: which of the three defects of the pinned tree are
   repaired in the modelled algorithm
     err   an unparsable Digest header makes check_auth return a (truthy) 400
           error object                          -> repaired: returns False (login False)
     nopw  a user absent from the table has password None, which Digest
           verification formats as the text "None" -> repaired: refused
     enc   Basic with the default encrypt (md5) hashes a str and raises
                                                 -> repaired: compares md5 hex
   A behaviour may go on with a SECOND check on the same request object
   (Recheck), configured for an independent protection domain (AuthOps: dom).
   The state between the two checks is what the request object carries:
   request.login as the first check left it (dec[2]).  check_auth as written
   does not read it; constant Reuse = TRUE models an algorithm that does
   ("already verified": returns True when request.login is set) - a successful
   check for one domain then authenticates the request for any other: TLC
   must find that (MC_Auth_reuse.cfg, teeth).

   Conforms holds for AllFixed and must be violated for Pinned (the model has
   teeth).  `pred` carries the predicted decision under both, for comparison
   with the real decision (conformance drift).  A variant is a generator,
   never an oracle.                                                        *)
EXTENDS AuthOps, FiniteSets, TLC

CONSTANTS Cfgs,        \* set of configurations [api, enc, tbl, m]
          Pres,        \* which sets of required Digest fields are present (bit sets, see AuthOps)
          Extras, QopQfs,  \* set of <<qop, qf>>
          FixErr, FixNoPw, FixEnc,  \* BOOLEAN: the variant of the algorithm whose line is emitted
          Reuse,       \* BOOLEAN: variant that trusts request.login left by an earlier check
          Doms,        \* domains of the second check: subset of {"same", "tbl", "realm", "both"}
          Pres2, Extras2, QopQfs2   \* the credential classes for which a second check is explored

VARIABLES part,   \* which slice of the case space this behaviour enumerates (see Init)
          c,      \* the case: <<api, enc, tbl, m, sch, form, user, sec, realm, pres, extra, qop, qf, hm>>  (what a replay drives)
          dec,    \* <<ret, login, auth>>: the decision of the chosen variant (the emitted line is Out)
          pred,   \* << <<ret, login, auth>> pinned, <<ret, login, auth>> all fixed >>
          vd,     \* Verdict of the emitted line
          d2,     \* domain of the second check on the same request object, "" while there was none
          dec2, pred2, vd2,   \* as dec, pred, vd, for the second check
          bad

vars == <<part, c, dec, pred, vd, d2, dec2, pred2, vd2, bad>>

(* values for the constants that a .cfg file cannot write (tuples, records).
   digest_auth, the Digest idiom and both filters pass no `encrypt`, so they
   only exist with the default encoder. *)
ApiEncsAll == {<<"check", "plain">>, <<"check", "md5">>, <<"basic", "plain">>, <<"basic", "md5">>, <<"digest", "md5">>,
               <<"idiomb", "plain">>, <<"idiomb", "md5">>, <<"idiomd", "md5">>, <<"filterb", "md5">>, <<"filterd", "md5">>}
MkCfgs(tbls, ms) == {[api |-> ae[1], enc |-> ae[2], tbl |-> t, m |-> m] : ae \in ApiEncsAll, t \in tbls, m \in ms}
CfgsQuick == MkCfgs({"dict"}, {"GET"})
(* the quick tier: the ten api/encrypt pairs with a dict and GET, plus two other table forms with POST *)
CfgsQuickX == CfgsQuick \cup {[api |-> "check", enc |-> "plain", tbl |-> "fpw", m |-> "POST"],
                              [api |-> "filterd", enc |-> "md5", tbl |-> "fdict", m |-> "POST"]}
CfgsFn    == {cf \in CfgsQuick : cf.api \in {"check", "basic", "digest"}}
CfgsStack == CfgsQuick \ CfgsFn
CfgsWide  == {cf \in CfgsFn : cf.api = "check" \/ cf.api = "digest"}
CfgsAll   == MkCfgs({"dict", "fdict", "fpw"}, {"GET", "POST"})
QopQfsAll == {"none", "auth", "authint", "bogus"} \X {"both", "nocnonce", "nonc", "neither"}
QopQfsFew == {<<"none", "neither">>, <<"auth", "both">>, <<"auth", "nonc">>, <<"bogus", "both">>}
QopQfsQuick == {<<"none", "neither">>, <<"none", "both">>, <<"auth", "both">>, <<"auth", "nonc">>, <<"bogus", "both">>}
QopQfsTwo == {<<"none", "neither">>, <<"auth", "both">>}     \* second checks in the quick tier
QopQfsMid == QopQfsQuick \cup {<<"authint", "both">>, <<"auth", "neither">>, <<"none", "nocnonce">>}

Pinned   == [err |-> FALSE, nopw |-> FALSE, enc |-> FALSE]
AllFixed == [err |-> TRUE,  nopw |-> TRUE,  enc |-> TRUE]
Chosen   == [err |-> FixErr, nopw |-> FixNoPw, enc |-> FixEnc]

Bits(p) == (p % 2) + ((p \div 2) % 2) + ((p \div 4) % 2) + ((p \div 8) % 2) + ((p \div 16) % 2)
PresAll   == 0..31
PresUpTo2 == {p \in 0..31 : Bits(p) >= 3 \/ p \in {0, 1}}     \* at most two missing; only username; nothing

Secrets(u) == IF u = "known" THEN {"right", "wrong", "none", "empty", "derived", "other"}
              ELSE {"wrong", "none", "empty", "derived", "other"}

Default == [sch |-> "none", form |-> "std", user |-> "known", sec |-> "right", realm |-> "right",
            pres |-> AllPresent, extra |-> "none", qop |-> "none", qf |-> "neither", hm |-> "same"]

-----------------------------------------------------------------------------
(* the algorithm *)

(* "Digest" followed by nothing: the header value is stripped, no space is left *)
Stripped(cr) == cr.sch = "digest" /\ cr.pres = 0 /\ cr.extra = "none" /\ cr.qop = "none" /\ cr.qf = "neither"

ParseDigestOK(cr) == /\ cr.pres = AllPresent
                     /\ (cr.qop # "none" => cr.qf = "both")
                     /\ (cr.qop = "none" => cr.qf = "neither")

Outcome(fx, cfg, cr) ==
  IF cr.sch = "none" THEN "nohdr"
  ELSE IF cr.sch = "nospace" \/ Stripped(cr) THEN "exc"          \* credentials.split(' ', 1)
  ELSE IF cr.sch = "unknown" THEN "exc"                           \* AUTH_SCHEMES[auth_scheme]
  ELSE IF cr.sch = "basic" THEN
         IF cr.form \in {"bad", "nocolon"} THEN "exc"             \* base64 / split(b':', 1)
         ELSE IF fx.nopw /\ cr.user = "unknown" THEN "refuse"
         ELSE IF cfg.enc = "md5" /\ ~fx.enc THEN "exc"            \* md5(str)
         ELSE IF cr.user = "known" /\ cr.sec = "right" THEN "auth" ELSE "refuse"
  ELSE   IF ~ParseDigestOK(cr) THEN (IF fx.err THEN "refuse" ELSE "errobj")
         ELSE IF fx.nopw /\ cr.user = "unknown" THEN "refuse"
         ELSE IF cr.realm = "wrong" THEN "refuse"
         ELSE IF \/ cr.extra = "algbogus"                         \* DIGEST_AUTH_ENCODERS[algorithm]
                 \/ cr.qop \in {"authint", "bogus"}               \* _A2
                 \/ (cr.extra = "algsess" /\ cr.qop = "none")     \* _A1: params['cnonce']
              THEN "exc"
         ELSE IF /\ cr.hm = "same"
                 /\ \/ (cr.user = "known" /\ cr.sec = "right")
                    \/ (cr.user = "unknown" /\ cr.sec = "none")   \* '%s:%s:%s' % (user, realm, None)
              THEN "auth" ELSE "refuse"

(* what the caller observes: <<ret, login, auth>> *)
Observed(api, o) ==
  IF api = "check" THEN
       CASE o = "nohdr"   -> <<"false", "unset", FALSE>>
         [] o = "auth"    -> <<"true", "name", TRUE>>
         [] o = "refuse"  -> <<"false", "false", FALSE>>
         [] o = "errobj"  -> <<"err", "unset", TRUE>>            \* a truthy httperror event
         [] o = "exc"     -> <<"exc", "unset", FALSE>>
  ELSE IF api \in {"basic", "digest"} THEN
       CASE o = "nohdr"   -> <<"unauth", "unset", FALSE>>
         [] o = "auth"    -> <<"pass", "name", TRUE>>
         [] o = "refuse"  -> <<"unauth", "false", FALSE>>
         [] o = "errobj"  -> <<"pass", "unset", TRUE>>
         [] o = "exc"     -> <<"exc", "unset", FALSE>>
  ELSE CASE o = "nohdr"   -> <<"401", "na", FALSE>>
         [] o = "auth"    -> <<"200", "na", TRUE>>
         [] o = "refuse"  -> <<"401", "na", FALSE>>
         [] o = "errobj"  -> <<"400", "na", TRUE>>               \* status of the error object, body of the protected handler
         [] o = "exc"     -> <<"500", "na", FALSE>>

(* a later check on the same request object: the paths that return or raise
   before request.login is assigned leave what the earlier check put there *)
ObservedAfter(api, o, prev) ==
  IF o \in {"nohdr", "exc", "errobj"} /\ api \in {"check", "basic", "digest"}
  THEN [Observed(api, o) EXCEPT ![2] = prev] ELSE Observed(api, o)

(* the credential class as it stands in the domain of the second check *)
InDomain(cr, dom) == [cr EXCEPT !.user  = IF dom \in {"tbl", "both"} THEN "unknown" ELSE @,
                                !.realm = IF dom \in {"realm", "both"} THEN "wrong" ELSE @]

LineOf(cfg, cr, obs) ==
  [step |-> 1, dom |-> "same",
   api |-> cfg.api, enc |-> cfg.enc, tbl |-> cfg.tbl, m |-> cfg.m,
   sch |-> cr.sch, form |-> cr.form, user |-> cr.user, sec |-> cr.sec, realm |-> cr.realm,
   pres |-> cr.pres, extra |-> cr.extra, qop |-> cr.qop, qf |-> cr.qf, hm |-> cr.hm,
   ret |-> obs[1], login |-> obs[2], auth |-> obs[3]]

-----------------------------------------------------------------------------
(* Init only spreads the enumeration over many initial states (TLC explores
   them in parallel); `part` is not part of the case. *)
Parts == [cfg : Cfgs, u : {"known", "unknown"}, r : {"right", "wrong"}, h : {"same", "other"}]
First(pt) == pt.u = "known" /\ pt.r = "right" /\ pt.h = "same"

Init == /\ part \in Parts /\ c = <<>> /\ dec = <<>> /\ pred = <<>> /\ vd = "" /\ bad = ""
        /\ d2 = "" /\ dec2 = <<>> /\ pred2 = <<>> /\ vd2 = ""

Case(cfg, cr) ==
  /\ c' = <<cfg.api, cfg.enc, cfg.tbl, cfg.m, cr.sch, cr.form, cr.user, cr.sec, cr.realm, cr.pres,
            cr.extra, cr.qop, cr.qf, cr.hm>>
  /\ LET obs  == Observed(cfg.api, Outcome(Chosen, cfg, cr))
         line == LineOf(cfg, cr, obs)
     IN dec' = obs /\ vd' = Verdict(line) /\ bad' = Run(P0, <<line>>, "")[2]
  /\ pred' = <<Observed(cfg.api, Outcome(Pinned, cfg, cr)), Observed(cfg.api, Outcome(AllFixed, cfg, cr))>>
  /\ part' = <<>>
  /\ UNCHANGED <<d2, dec2, pred2, vd2>>

CfgOf(cc) == [api |-> cc[1], enc |-> cc[2], tbl |-> cc[3], m |-> cc[4]]
CredOf(cc) == [sch |-> cc[5], form |-> cc[6], user |-> cc[7], sec |-> cc[8], realm |-> cc[9], pres |-> cc[10],
               extra |-> cc[11], qop |-> cc[12], qf |-> cc[13], hm |-> cc[14]]

(* what the request object carries from the first check to the second *)
RequestLogin == IF c = <<>> THEN "unset" ELSE dec[2]

(* the second check, on the same request object, for the domain `dom` *)
Recheck(dom) ==
  /\ c # <<>> /\ d2 = ""
  /\ c[1] \in {"check", "basic", "digest"}
  /\ c[10] \in Pres2 /\ c[11] \in Extras2 /\ <<c[12], c[13]>> \in QopQfs2
  /\ LET cfg  == CfgOf(c)
         cr   == CredOf(c)
         cr2  == InDomain(cr, dom)
         o    == IF Reuse /\ RequestLogin = "name" THEN "auth" ELSE Outcome(Chosen, cfg, cr2)
         obs  == ObservedAfter(cfg.api, o, RequestLogin)
         ln1  == LineOf(cfg, cr, dec)
         ln2  == [LineOf(cfg, cr, obs) EXCEPT !.step = 2, !.dom = dom]
     IN /\ d2' = dom /\ dec2' = obs /\ vd2' = Verdict(ln2)
        /\ bad' = Run(Apply(P0, ln1), <<ln2>>, bad)[2]
        /\ pred2' = <<ObservedAfter(cfg.api, Outcome(Pinned, cfg, cr2), pred[1][2]),
                      ObservedAfter(cfg.api, Outcome(AllFixed, cfg, cr2), pred[2][2])>>
  /\ UNCHANGED <<part, c, dec, pred, vd>>

CaseNone == c = <<>> /\ First(part) /\ Case(part.cfg, Default)

CaseNoSpace == c = <<>> /\ First(part) /\ \E f \in {"bare", "glued"} :
                 Case(part.cfg, [Default EXCEPT !.sch = "nospace", !.form = f])

CaseUnknown == c = <<>> /\ First(part) /\ \E f \in {"bearer", "digestx"} :
                 Case(part.cfg, [Default EXCEPT !.sch = "unknown", !.form = f])

CaseBasic == c = <<>> /\ part.r = "right" /\ part.h = "same" /\ \E f \in {"ok", "upper", "bad", "nocolon"}, s \in Secrets(part.u) :
                 Case(part.cfg, [Default EXCEPT !.sch = "basic", !.form = f, !.user = part.u, !.sec = s])

CaseDigest == c = <<>> /\ \E p \in Pres, e \in Extras, qq \in QopQfs, s \in Secrets(part.u) :
                 Case(part.cfg, [sch |-> "digest", form |-> "std", user |-> part.u, sec |-> s, realm |-> part.r, pres |-> p,
                                 extra |-> e, qop |-> qq[1], qf |-> qq[2], hm |-> part.h])

(* a behaviour is one check, possibly followed by a second one on the same
   request object (the guard c = <<>> comes first in every Case action so that
   TLC does not enumerate the case space again from every case state) *)
Next == CaseNone \/ CaseNoSpace \/ CaseUnknown \/ CaseBasic \/ CaseDigest \/ (\E dom \in Doms : Recheck(dom))

Spec == Init /\ [][Next]_vars

-----------------------------------------------------------------------------
(* the emitted trace lines (one per check), as the instrumented code emits them *)
Out == IF c = <<>> THEN <<>>
       ELSE LET ln1 == LineOf(CfgOf(c), CredOf(c), dec)
            IN IF d2 = "" THEN <<ln1>>
               ELSE <<ln1, [LineOf(CfgOf(c), CredOf(c), dec2) EXCEPT !.step = 2, !.dom = d2]>>

TypeOK == /\ bad \in STRING /\ vd \in {"", "must", "mustnot", "open"} /\ vd2 \in {"", "must", "mustnot", "open"}
          /\ d2 \in {""} \cup Doms

(* C20 as the monitor's verdict on the modelled algorithm *)
Conforms == bad = ""

(* C20 stated directly: authenticated <=> verifies (for the domain of that
   check), outside the open classes - for every check of the behaviour *)
AuthIffVerifies ==
  /\ c # <<>> => /\ (vd = "must" => dec[3])
                 /\ (vd = "mustnot" => ~dec[3] /\ dec[2] # "name")
                 /\ vd = Verdict(Out[1])
  /\ d2 # "" => /\ (vd2 = "must" => dec2[3])
                /\ (vd2 = "mustnot" => ~dec2[3])
                /\ vd2 = Verdict(Out[2])
=============================================================================
