SPECIFICATION Spec
CONSTANTS
  Ips = {"a1", "a2"}
  Agents = {"u1", "u2"}
  MaxReq = 2
  Forged = {"garbage", "selfmade", "transplant"}
  Ops = {"r", "w"}
  Variant = "bound"
  FirstIp = "a1"
  FirstAgent = "u1"
  XNames = {"xff", "xfflist", "xrealip", "forwarded", "via", "clientip", "xclientip"}
  MaxExtra = 1
INVARIANT Conforms
CHECK_DEADLOCK FALSE
