SPECIFICATION Spec
CONSTANTS
  Cfgs <- CfgsWide
  Pres <- PresAll
  Extras = {"none", "opaque", "algmd5", "algsess", "algbogus"}
  QopQfs <- QopQfsAll
  FixErr = TRUE
  FixNoPw = TRUE
  FixEnc = TRUE
INVARIANT TypeOK
INVARIANT Conforms
INVARIANT AuthIffVerifies
CHECK_DEADLOCK FALSE
