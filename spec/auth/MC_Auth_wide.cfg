SPECIFICATION Spec
CONSTANTS
  Cfgs <- CfgsWide
  Pres <- PresAll
  Extras = {"none", "opaque", "algmd5", "algsess", "algbogus"}
  QopQfs <- QopQfsAll
  FixErr = TRUE
  FixNoPw = TRUE
  FixEnc = TRUE
  Reuse = FALSE
  Doms = {"same", "tbl", "realm", "both"}
  Pres2 = {31, 30, 15, 0}
  Extras2 = {"none", "algsess"}
  QopQfs2 <- QopQfsFew
INVARIANT TypeOK
INVARIANT Conforms
INVARIANT AuthIffVerifies
CHECK_DEADLOCK FALSE
