------------------------------ MODULE Sessions ------------------------------
(* C20 (session part) - generative model of circuits.web.sessions:
   Sessions.request + verify_session/create_session + MemoryStore.

   State: the ids that exist (`ids`: how each was made and for which
   fingerprint), the store, the number of requests.  The environment sends
   requests from Ips x Agents with a cookie that is absent, an id assigned
   earlier (possibly to somebody else), or forged:
     garbage     no '/' in it
     selfmade    '<chosen hex>/<sha1 of the sender's own ip+agent>'  (the
                 fingerprint algorithm is public)
     transplant  '<uuid part of id k>/<sha1 of the sender's own ip+agent>'
   and then reads, writes a marker (10 * id index + sender's fingerprint
   number: it says where it was stored and by whom), or expires its session.

   A request may also carry a further header that names an address and that
   any client can set (X-Forwarded-For, X-Real-IP, Forwarded, Via, Client-IP,
   X-Client-IP), naming the victim's or another address.  The client is its
   peer address and user agent: such a header must not enter the fingerprint.

   Variant "bound" is the algorithm of the code; "nofp" drops the fingerprint
   comparison of verify_session; "xffprint" hashes the first entry of
   X-Forwarded-For instead of the peer address; "catprint" hashes address and
   agent concatenated without a separator (the pinned code).  TLC must find a
   violation of SessionBound for each (teeth).  A variant is a generator, never an
   oracle.                                                                  *)
EXTENDS SessionsOps, FiniteSets, TLC

CONSTANTS Ips, Agents, MaxReq, Forged, Ops, Variant, FirstIp, FirstAgent,
          XNames,     \* further request headers a client controls and that name an address:
                      \* subset of {"xff", "xfflist", "xrealip", "forwarded", "via", "clientip", "xclientip"}
          MaxExtra    \* at most this many requests of a history carry such a header

VARIABLES ids,    \* Seq([kind: "uuid"|"self"|"trans", base, fp]); base = own index (uuid), 0 (self), index of the source id (trans)
          store,  \* Seq(marker)
          last,   \* <<[sid, ck, data, ip, agent] of the last request, number of ids before it>>, <<>> initially
          nreq, nx,   \* requests so far; of these, requests that carried an extra header
          P, bad,
          hist,   \* <<ip, agent, cookie kind, cookie arg, op, header name, address it names>> per request: what a replay drives
          out

vars == <<ids, store, last, nreq, nx, P, bad, hist, out>>

Emit(lines) == LET r == Run(P, lines, bad) IN P' = r[1] /\ bad' = r[2] /\ out' = out \o lines

Init == /\ ids = <<>> /\ store = <<>> /\ last = <<>> /\ nreq = 0 /\ nx = 0 /\ P = P0 /\ bad = "" /\ hist = <<>> /\ out = <<>>

FpIdx(fp) == (IF fp[1] = FirstIp THEN 0 ELSE 2) + (IF fp[2] = FirstAgent THEN 1 ELSE 2)

Find(rec) == LET S == {j \in 1..Len(ids) : ids[j] = rec} IN IF S = {} THEN 0 ELSE CHOOSE j \in S : TRUE

Cookies == {<<"none", 0>>}
           \cup {<<"issued", j>> : j \in 1..Len(ids)}
           \cup {<<f, 0>> : f \in Forged \cap {"garbage", "selfmade"}}
           \cup {<<"transplant", k>> : k \in {j \in 1..Len(ids) : "transplant" \in Forged /\ ids[j].kind = "uuid"}}

(* the id string the cookie carries, as the record that identifies it; "" kind = no usable id *)
Presented(fp, ck) ==
  CASE ck[1] = "issued"     -> ids[ck[2]]
    [] ck[1] = "selfmade"   -> [kind |-> "self", base |-> 0, fp |-> fp]
    [] ck[1] = "transplant" -> IF ids[ck[2]].fp = fp THEN ids[ck[2]]
                               ELSE [kind |-> "trans", base |-> ck[2], fp |-> fp]
    [] OTHER                -> [kind |-> "", base |-> 0, fp |-> fp]

(* What the fingerprint hash distinguishes.  Addresses and agents are texts;
   "a1d" is the text of "a1" followed by a digit and "du1" that digit followed
   by the text of "u1": the clients <<a1, du1>> and <<a1d, u1>> differ in address
   and agent, but a hash of the bare concatenation cannot tell them apart
   (variant "catprint"; the intended fingerprint keeps the two parts apart). *)
CatPairs == {<<"a1", "du1">>, <<"a1d", "u1">>}
K(fp) == IF Variant = "catprint" /\ fp \in CatPairs THEN <<"a1", "du1">> ELSE fp

(* verify_session: the part after '/' must be the sender's fingerprint *)
Accepted(fp, rec) == rec.kind # "" /\ (Variant = "nofp" \/ rec.fp = fp)

(* extra headers: <<name, address named>>, <<"none", "none">> = no such header *)
ExtraHdrs == {<<"none", "none">>} \cup (XNames \X Ips)

(* the address who() hashes: the peer's.  Variant "xffprint" prefers the first
   entry of X-Forwarded-For, which any client can set *)
WhoIp(ip, xh) == IF Variant = "xffprint" /\ xh[1] \in {"xff", "xfflist"} THEN xh[2] ELSE ip

Request(ip, agent, ck, op, xh) ==
  /\ nreq < MaxReq
  /\ (xh[1] # "none" => nx < MaxExtra)
  /\ (nreq = 0 => ip = FirstIp /\ agent = FirstAgent)     \* symmetry: the first client is fixed
  /\ LET fp   == <<ip, agent>>                           \* the client: peer address + user agent
         wfp  == K(<<WhoIp(ip, xh), agent>>)              \* what the server hashes
         rec  == Presented(K(fp), ck)                     \* forged suffixes are made from the sender's own address
         pidx == IF rec.kind = "" THEN 0 ELSE Find(rec)   \* what was presented, as an assigned id
         acc  == Accepted(wfp, rec)
         idx  == IF acc /\ pidx # 0 THEN pidx ELSE Len(ids) + 1
         nrec == IF acc THEN rec ELSE [kind |-> "uuid", base |-> Len(ids) + 1, fp |-> wfp]   \* uuid4: unlike any other id
         ids1 == IF idx = Len(ids) + 1 THEN Append(ids, nrec) ELSE ids
         st1  == IF idx = Len(ids) + 1 THEN Append(store, 0) ELSE store
         data == st1[idx]
         mark == 10 * idx + FpIdx(fp)      \* says where it was stored and who stored it
         line == [ip |-> ip, agent |-> agent, ck |-> pidx, fk |-> ck[1], sid |-> idx, data |-> data,
                  w |-> IF op = "w" THEN mark ELSE 0, x |-> IF op = "x" THEN 1 ELSE 0,
                  xh |-> xh[1], xa |-> xh[2]]
     IN /\ ids' = ids1
        /\ last' = <<[sid |-> idx, ck |-> pidx, data |-> data, ip |-> ip, agent |-> agent], Len(ids)>>
        /\ store' = CASE op = "w" -> [st1 EXCEPT ![idx] = mark]
                      [] op = "x" -> [st1 EXCEPT ![idx] = 0]
                      [] OTHER    -> st1
        /\ Emit(<<line>>)
  /\ nreq' = nreq + 1
  /\ nx' = IF xh[1] = "none" THEN nx ELSE nx + 1
  /\ hist' = Append(hist, <<ip, agent, ck[1], ck[2], op, xh[1], xh[2]>>)

Next == \E ip \in Ips, agent \in Agents, op \in Ops, xh \in ExtraHdrs : \E ck \in Cookies : Request(ip, agent, ck, op, xh)

Spec == Init /\ [][Next]_vars

-----------------------------------------------------------------------------
TypeOK == nreq \in 0..MaxReq /\ nx \in 0..MaxExtra /\ Len(ids) = Len(store) /\ bad \in STRING

(* C20 as the monitor's verdict on every behaviour of the model *)
Conforms == bad = ""

(* C20 stated directly on the model's state (independent of the monitor):
   - what is stored under an id was written from the fingerprint the id carries;
   - the last request either presented the id it is bound to from that id's
     fingerprint, or it is bound to an id that did not exist before and sees
     no data;
   - ids that the server made (uuid) are never equal to any other id.
   Every state is the end of a history, so this is the history property
   "for every request of every history of at most MaxReq requests".        *)
SessionBound ==
  /\ \A i \in 1..Len(ids) : store[i] # 0 => store[i] = 10 * i + FpIdx(ids[i].fp)
  /\ last # <<>> =>
       LET ln == last[1]
           n0 == last[2]
       IN \/ ln.sid <= n0 /\ ln.ck = ln.sid /\ ids[ln.sid].fp = <<ln.ip, ln.agent>>
          \/ ln.sid = n0 + 1 /\ ln.data = 0
  /\ \A i, j \in 1..Len(ids) : i # j => ids[i] # ids[j]

View == <<ids, store, last, nreq, nx, P, bad>>
=============================================================================
