SPECIFICATION Spec
CONSTANTS
  Ips = {"a1", "a2"}
  Agents = {"u1", "u2"}
  MaxReq = 3
  Forged = {"garbage", "selfmade", "transplant"}
  Ops = {"r", "w"}
  Variant = "xffprint"
  FirstIp = "a1"
  FirstAgent = "u1"
  XNames = {"xff", "xfflist", "xrealip", "forwarded", "via", "clientip", "xclientip"}
  MaxExtra = 1
INVARIANT TypeOK
INVARIANT Conforms
INVARIANT SessionBound
VIEW View
CHECK_DEADLOCK FALSE
